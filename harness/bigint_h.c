/* Driver for bigint.c / foam_i.c.  Reads lines "op A B N" (A, B = [-]hex, N = decimal),
 * prints one result line per input line.  Values enter through bintFrPlacevS (the object
 * file decoder's path) and leave through bintToPlacevS, so that the string conversions
 * can be tested as operations rather than trusted. */
#include "axlgen.h"
#include "bigint.h"
#include "store.h"
#include "foam_c.h"
#include <stdio.h>
#include <string.h>
#include <stdlib.h>

static BInt parse(const char *s)
{
	int neg = 0, n, i, nd;
	U16 d[2048];
	if (*s == '-') { neg = 1; s++; }
	n = strlen(s);
	nd = (n + 3) / 4;
	if (nd > 2040) { fprintf(stderr, "operand too long\n"); exit(3); }
	for (i = 0; i < nd; i++) {
		int hi = n - 4 * i, lo = hi - 4, j; unsigned v = 0;
		if (lo < 0) lo = 0;
		for (j = lo; j < hi; j++) {
			char c = s[j];
			v = v * 16 + (c <= '9' ? c - '0' : (c | 32) - 'a' + 10);
		}
		d[i] = (U16) v;
	}
	while (nd > 1 && d[nd - 1] == 0) nd--;
	{
		/* bintFrPlacevS may pack in place: give it a private copy of exactly nd digits (no slack: under ASan a write past the
		 * digits is a report; the unchanged tree wrote one digit too far for odd counts, fixed in the repository) */
		U16 *copy = (U16 *) stoAlloc(OB_Other, sizeof(U16) * nd);
		BInt r;
		memcpy(copy, d, sizeof(U16) * nd);
		r = bintFrPlacevS(neg, nd, copy);
		return r;
	}
}

static void show(BInt b)
{
	int n, i, started = 0;
	U16 *d;
	if (bintIsZero(b)) { printf("0"); return; }
	if (bintIsNeg(b)) printf("-");
	bintToPlacevS(b, &n, &d);
	for (i = n - 1; i >= 0; i--) {
		if (!started) { if (d[i] == 0) continue; printf("%x", d[i]); started = 1; }
		else printf("%04x", d[i]);
	}
	if (!started) printf("0");
	stoFree(d);
}

int main(int argc, char **argv)
{
	static char line[40000], op[32], as[16000], bs[16000];
	long n;
	osInit();
	fiBIntInit();
	while (fgets(line, sizeof line, stdin)) {
		BInt a, b, r, q;
		n = 0; as[0] = bs[0] = 0;
		if (sscanf(line, "%31s %15999s %15999s %ld", op, as, bs, &n) < 2) continue;
		a = parse(as);
		b = bs[0] ? parse(bs) : bint0;
#define IS(x) (!strcmp(op, x))
		if IS("id") { show(a); }
		else if IS("imm") { printf("%d", (int) (((long) a) & 1)); }   /* representation */
		else if IS("neg") { show(bintNegate(a)); }
		else if IS("abs") { show(bintAbs(a)); }
		else if IS("add") { show(bintPlus(a, b)); }
		else if IS("sub") { show(bintMinus(a, b)); }
		else if IS("mul") { show(bintTimes(a, b)); }
		else if IS("div") { q = bintDivide(&r, a, b); show(q); printf(" "); show(r); }
		else if IS("mod") { show(bintMod(a, b)); }
		else if IS("figcd") { show((BInt) fiBIntGcd((FiBInt) a, (FiBInt) b)); }
		else if IS("fiquo") { show((BInt) fiBIntQuo((FiBInt) a, (FiBInt) b)); }
		else if IS("firem") { show((BInt) fiBIntRem((FiBInt) a, (FiBInt) b)); }
		else if IS("fimod") { show((BInt) fiBIntMod((FiBInt) a, (FiBInt) b)); }
		else if IS("fidiv") { FiBInt q0, r0; fiBIntDivide((FiBInt) a, (FiBInt) b, &q0, &r0); show((BInt) q0); printf(" "); show((BInt) r0); }
		else if IS("sipow") { show((BInt) fiBIntSIPower((FiBInt) a, (FiSInt) n)); }
		else if IS("bipow") { show((BInt) fiBIntBIPower((FiBInt) a, (FiBInt) b)); }
		else if IS("pm") { /* pm A B M: all hex */
			char ms[16000]; BInt c;
			if (sscanf(line, "%*s %*s %*s %15999s", ms) != 1) { printf("?"); }
			else { c = parse(ms); show((BInt) fiBIntPowerMod((FiBInt) a, (FiBInt) b, (FiBInt) c)); }
		}
		else if IS("tplus") { char ms[16000]; BInt c; sscanf(line, "%*s %*s %*s %15999s", ms); c = parse(ms);
			show((BInt) fiBIntTimesPlus((FiBInt) a, (FiBInt) b, (FiBInt) c)); }
		else if IS("eq") { printf("%d", (int) bintEQ(a, b)); }
		else if IS("lt") { printf("%d", (int) bintLT(a, b)); }
		else if IS("gt") { printf("%d", (int) bintGT(a, b)); }
		else if IS("file") { printf("%d %d %d", (int) fiBIntLE((FiBInt) a, (FiBInt) b), (int) fiBIntNE((FiBInt) a, (FiBInt) b), (int) fiBIntLT((FiBInt) a, (FiBInt) b)); }
		else if IS("sgn") { printf("%d %d %d", (int) bintIsNeg(a), (int) bintIsZero(a), (int) bintIsPos(a)); }
		else if IS("len") { printf("%lu", (unsigned long) bintLength(a)); }
		else if IS("bit") { printf("%d", (int) bintBit(a, (Length) n)); }
		else if IS("shl") { show(bintShift(a, (int) n)); }
		else if IS("shr") { show(bintShift(a, -(int) n)); }
		else if IS("shrem") { show(bintShiftRem(a, (int) n)); }
		else if IS("small") { int s = bintIsSmall(a); printf("%d", s); if (s) printf(" %ld", bintSmall(a)); }
		else if IS("tosint") { printf("%ld", (long) fiBIntToSInt((FiBInt) a)); }
		else if IS("single") { printf("%d", (int) fiBIntIsSingle((FiBInt) a)); }
		else if IS("new") { show(bintNew(n)); }      /* machine integer -> bigint */
		else if IS("frsint") { show((BInt) fiSIntToBInt((FiSInt) n)); }
		else if IS("tostr") { String s = bintToString(a); printf("%s", s); }
		else if IS("frstr") { show(bintFrString(as)); }           /* A is decimal text here */
		else if IS("scan") { String e; BInt v = bintScanFrString(as, &e); show(v); printf(" %d", (int) (e - as)); }
		else if IS("rscan") { String e; BInt v = bintRadixScanFrString(as, &e); show(v); printf(" %d", (int) (e - as)); }
		else if IS("rt") { String s = bintToString(a); BInt v = bintFrString(s); show(v); }
		else if IS("copy") { BInt c = bintCopy(a); show(c); }
		else if IS("todflo") { double d = fiBIntToDFlo((FiBInt) a); printf("%.17g", d); }
		else if IS("strsz") { String s = bintToString(a); printf("%d", (int) (bintStringSize(a) >= (int) strlen(s) + 1)); }
		else if IS("rpn") {
			/* rpn: a small stack program over the rest of the line.  Results of operations are used as operands of
			 * further operations and of comparisons WITHOUT a trip through digits, so that the representation an
			 * operation leaves behind (immediate or allocated, normalised or not) is what the next one sees.
			 * tokens: x[-]hex literal (bintFrPlacevS), n<dec> (bintNew), s<dec> (bintFrString), + - * q r m g ~ a c
			 * <N >N (shift), p<N> (fiBIntSIPower), ? (print EQ LT GT of the top two, both orders, keep them),
			 * . (print top) */
			BInt st[64]; int sp = 0; char *tok, *save;
			char *rest = line + 3;
			for (tok = strtok_r(rest, " \n", &save); tok; tok = strtok_r(NULL, " \n", &save)) {
				char c0 = tok[0];
				if (sp >= 60) { printf("!deep"); break; }
				if (c0 == 'n') st[sp++] = bintNew(strtol(tok + 1, NULL, 10));
				else if (c0 == 's') st[sp++] = bintFrString(tok + 1);
				else if (c0 == '<' ) { st[sp-1] = bintShift(st[sp-1], atoi(tok + 1)); }
				else if (c0 == '>' ) { st[sp-1] = bintShift(st[sp-1], -atoi(tok + 1)); }
				else if (c0 == 'p' ) { st[sp-1] = (BInt) fiBIntSIPower((FiBInt) st[sp-1], (FiSInt) atoi(tok + 1)); }
				else if (c0 == '~' ) { st[sp-1] = bintNegate(st[sp-1]); }
				else if (c0 == 'a' && !tok[1]) { st[sp-1] = bintAbs(st[sp-1]); }
				else if (c0 == 'c' && !tok[1]) { st[sp-1] = bintCopy(st[sp-1]); }
				else if (c0 == '.' ) { show(st[sp-1]); printf(" "); }
				else if (c0 == '?' ) { BInt x = st[sp-2], y = st[sp-1];
					printf("%d%d%d%d%d%d%d%d ", (int) bintEQ(x, y), (int) bintLT(x, y), (int) bintGT(x, y),
					       (int) bintEQ(y, x), (int) bintLT(y, x), (int) bintGT(y, x),
					       (int) fiBIntLE((FiBInt) x, (FiBInt) y), (int) fiBIntNE((FiBInt) x, (FiBInt) y)); }
				else if (!tok[1] && strchr("+*qrmg", c0) || (c0 == '-' && !tok[1])) {
					BInt y = st[--sp], x = st[--sp], z = 0, rr;
					switch (c0) {
					case '+': z = bintPlus(x, y); break;
					case '-': z = bintMinus(x, y); break;
					case '*': z = bintTimes(x, y); break;
					case 'q': z = bintDivide(&rr, x, y); break;
					case 'r': bintDivide(&z, x, y); break;
					case 'm': z = bintMod(x, y); break;
					case 'g': z = (BInt) fiBIntGcd((FiBInt) x, (FiBInt) y); break;
					}
					st[sp++] = z;
				}
				else if (c0 == 'x') st[sp++] = parse(tok + 1);
				else { printf("?tok"); break; }
			}
		}
		else printf("?op");
		printf("\n");
		fflush(stdout);
	}
	return 0;
}
