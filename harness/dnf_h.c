/* Driver for dnf.c.  Lines:  "D <formula>"            -> the normal form
 *                            "R <formula> ; <formula>" -> implies equal (of the two normal forms)
 * formula in prefix form: a<k> atom, n<k> negated atom (via dnfNotAtom), N f, A f g, O f g, T, F.
 * Normal form printed as T, F or terms "1,-2|3". */
#include "axlgen.h"
#include "dnf.h"
#include "store.h"
#include <stdio.h>
#include <string.h>
#include <stdlib.h>

static char *tok;
static char *next(void) { char *t = tok; if (!t) return 0; tok = strchr(t, ' '); if (tok) { *tok++ = 0; while (*tok == ' ') tok++; if (!*tok) tok = 0; } return t; }

static DNF build(void)
{
	char *t = next(); DNF x, y, r;
	if (!t) { fprintf(stderr, "short formula\n"); exit(3); }
	switch (t[0]) {
	case 'a': return dnfAtom(atoi(t + 1));
	case 'n': return dnfNotAtom(atoi(t + 1));
	case 'T': return dnfTrue();
	case 'F': return dnfFalse();
	case 'N': x = build(); r = dnfNot(x); dnfFree(x); return r;
	case 'A': x = build(); y = build(); r = dnfAnd(x, y); dnfFree(x); dnfFree(y); return r;
	case 'O': x = build(); y = build(); r = dnfOr(x, y); dnfFree(x); dnfFree(y); return r;
	}
	fprintf(stderr, "bad token %s\n", t); exit(3);
}

static void show(DNF x)
{
	int i; Length j;
	if (dnfIsTrue(x)) { printf("T"); return; }
	if (dnfIsFalse(x)) { printf("F"); return; }
	for (i = 0; i < x->argc; i++) {
		if (i) printf("|");
		if (x->argv[i]->argc == 0) printf("()");
		for (j = 0; j < x->argv[i]->argc; j++) printf("%s%d", j ? "," : "", x->argv[i]->argv[j]);
	}
}

int main(void)
{
	static char line[1 << 16];
	osInit();
	while (fgets(line, sizeof line, stdin)) {
		char *nl = strchr(line, '\n'); if (nl) *nl = 0;
		if (line[0] == 'D') { DNF x; tok = line + 2; x = build(); show(x); dnfFree(x); }
		else if (line[0] == 'R') {
			DNF x, y; char *semi = strstr(line, " ; ");
			if (!semi) { printf("?\n"); continue; }
			*semi = 0; tok = line + 2; x = build(); tok = semi + 3; y = build();
			printf("%d %d ", (int) !!dnfImplies(x, y), (int) !!dnfEqual(x, y));
			show(x); printf(" ; "); show(y);
			dnfFree(x); dnfFree(y);
		} else printf("?");
		printf("\n"); fflush(stdout);
	}
	return 0;
}
