/* Driver for xfloat.c / foam_c.c float boxing.
 *   xfloat_h s LO HI STEP     single patterns LO..HI-1 step STEP
 *   xfloat_h d SEED NRANDOM   all exponents x boundary fractions x sign, then NRANDOM random doubles
 *   xfloat_h show             print portable bytes of some values (format discovery)
 * For each pattern: portable round trip, native and portable dissemble/assemble identity,
 * fi* boxing identity, and the portable bytes against an independent definition built from
 * frexp for normal numbers (sign, 15-bit exponent excess 0x3ffe, fraction with implicit leading bit).
 * Prints "patterns=N mismatches=M" and the first mismatches. */
#include "axlgen.h"
#include "xfloat.h"
#include "foam_c.h"
#include <stdio.h>
#include <string.h>
#include <stdlib.h>
#include <math.h>
#include <stdint.h>

static unsigned long nmis = 0, npat = 0;
static unsigned long cls[8];
static void mis(const char *what, unsigned long long bits, unsigned long long got)
{
	if (nmis++ < 20) printf("MISMATCH %s bits=%llx got=%llx\n", what, bits, got);
}

static int snan(uint32_t u) { return (u & 0x7f800000u) == 0x7f800000u && (u & 0x7fffffu); }
static int dnan(uint64_t u) { return (u & 0x7ff0000000000000ull) == 0x7ff0000000000000ull && (u & 0xfffffffffffffull); }

/* independent definition of the portable bytes for a finite non-zero value */
static void model(double v, int fracbytes, unsigned char *out /* 2 + fracbytes */)
{
	int e; double m = frexp(fabs(v), &e);       /* m in [0.5,1) */
	unsigned w = (unsigned) (e - 1 + 0x3ffe) & 0x7fff;
	int i;
	m = 2 * m - 1;                              /* leading bit is implicit */
	if (signbit(v)) w |= 0x8000;
	out[0] = w >> 8; out[1] = w & 0xff;
	for (i = 0; i < fracbytes; i++) { m *= 256.0; out[2 + i] = (unsigned char) m; m -= (unsigned char) m; }
}

static void one_single(uint32_t u)
{
	float f, g; uint32_t v; XSFloat x, y; Bool sg; int ex; UByte fr[16]; Bool isz;
	FiBool fsg; FiSInt fex; FiWord w0;
	memcpy(&f, &u, 4); npat++;
	/* portable round trip */
	memset(&x, 0x5a, sizeof x);
	xsfFrNative(&x, &f); xsfToNative(&x, &g); memcpy(&v, &g, 4);
	if (snan(u) ? !snan(v) : v != u) mis("xsf-roundtrip", u, v);
	/* portable bytes against the model (finite, non-zero) */
	if (!snan(u) && (u & 0x7f800000u) != 0x7f800000u && (u & 0x7fffffffu)) {
		unsigned char m[6]; model((double) f, 4, m);
		if ((u & 0x7f800000u) && memcmp(m, &x, 6)) { unsigned long long a = 0; int i; for (i = 0; i < 6; i++) a = a << 8 | ((UByte *) &x)[i]; mis("xsf-bytes", u, a); }
		cls[(u & 0x7f800000u) ? 0 : 1]++;
	} else if (!(u & 0x7fffffffu)) {
		cls[2]++;
		if (xsfClassify(&x) != FLOAT_ZERO) mis("xsf-zero-class", u, xsfClassify(&x));
		if ((((UByte *) &x)[0] >> 7) != (u >> 31)) mis("xsf-zero-sign", u, ((UByte *) &x)[0]);
	} else cls[snan(u) ? 4 : 3]++;
	/* portable dissemble/assemble identity */
	xsfDissemble(&x, &sg, &ex, fr); memset(&y, 0xa5, sizeof y); xsfAssemble(&y, sg, ex, fr);
	if (memcmp(&x, &y, XSFLOAT_BYTES)) mis("xsf-dis/asm", u, 0);
	/* native dissemble/assemble identity */
	memset(fr, 0, sizeof fr); sfDissemble(&f, &sg, &ex, fr, &isz); g = 0; sfAssemble(&g, sg, ex, fr); memcpy(&v, &g, 4);
	if (v != u) mis("sf-dis/asm", u, v);
	if ((int) isz != ((u & 0x7fffffffu) == 0)) mis("sf-iszero", u, isz);
	if ((int) sg != (int) (u >> 31)) mis("sf-sign", u, sg);
	/* runtime boxing */
	w0 = 0; fiSFloDissemble(f, &fsg, &fex, &w0); g = fiSFloAssemble(fsg, fex, w0); memcpy(&v, &g, 4);
	if (v != u) mis("fiSFlo-dis/asm", u, v);
}

static void one_double(uint64_t u)
{
	double f, g; uint64_t v; XDFloat x, y; Bool sg; int ex; UByte fr[16]; Bool isz;
	FiBool fsg; FiSInt fex; FiWord w0, w1;
	memcpy(&f, &u, 8); npat++;
	memset(&x, 0x5a, sizeof x);
	xdfFrNative(&x, &f); xdfToNative(&x, &g); memcpy(&v, &g, 8);
	if (dnan(u) ? !dnan(v) : v != u) mis("xdf-roundtrip", u, v);
	if (!dnan(u) && (u & 0x7ff0000000000000ull) != 0x7ff0000000000000ull && (u & 0x7fffffffffffffffull)) {
		unsigned char m[10]; model(f, 8, m);
		if ((u & 0x7ff0000000000000ull) && memcmp(m, &x, 10)) { unsigned long long a = 0; int i; for (i = 2; i < 10; i++) a = a << 8 | ((UByte *) &x)[i]; mis("xdf-bytes", u, a); }
		cls[(u & 0x7ff0000000000000ull) ? 0 : 1]++;
	} else if (!(u & 0x7fffffffffffffffull)) {
		cls[2]++;
		if (xdfClassify(&x) != FLOAT_ZERO) mis("xdf-zero-class", u, xdfClassify(&x));
		if ((((UByte *) &x)[0] >> 7) != (u >> 63)) mis("xdf-zero-sign", u, ((UByte *) &x)[0]);
	} else cls[dnan(u) ? 4 : 3]++;
	xdfDissemble(&x, &sg, &ex, fr); memset(&y, 0xa5, sizeof y); xdfAssemble(&y, sg, ex, fr);
	if (memcmp(&x, &y, XDFLOAT_BYTES)) mis("xdf-dis/asm", u, 0);
	memset(fr, 0, sizeof fr); dfDissemble(&f, &sg, &ex, fr, &isz); g = 0; dfAssemble(&g, sg, ex, fr); memcpy(&v, &g, 8);
	if (v != u) mis("df-dis/asm", u, v);
	if ((int) isz != ((u & 0x7fffffffffffffffull) == 0)) mis("df-iszero", u, isz);
	if ((int) sg != (int) (u >> 63)) mis("df-sign", u, sg);
	w0 = w1 = 0; fiDFloDissemble(f, &fsg, &fex, &w0, &w1); g = fiDFloAssemble(fsg, fex, w0, w1); memcpy(&v, &g, 8);
	if (v != u) mis("fiDFlo-dis/asm", u, v);
}

static uint64_t rs;
static uint64_t rnd(void) { rs ^= rs << 13; rs ^= rs >> 7; rs ^= rs << 17; return rs; }

int main(int argc, char **argv)
{
	osInit();
	if (argc > 1 && !strcmp(argv[1], "show")) {
		float fs[] = { 1.0f, -2.0f, 0.5f, 1.5f, 1e-40f, 0.0f, -0.0f, INFINITY, NAN, 3.4e38f };
		double ds[] = { 1.0, -2.0, 1.5, 5e-324, 0.0, -0.0, INFINITY, NAN };
		int i, j;
		for (i = 0; i < 10; i++) { XSFloat x; xsfFrNative(&x, &fs[i]); printf("%g:", fs[i]); for (j = 0; j < 6; j++) printf(" %02x", ((UByte *) &x)[j]); printf("\n"); }
		for (i = 0; i < 8; i++) { XDFloat x; xdfFrNative(&x, &ds[i]); printf("%g:", ds[i]); for (j = 0; j < 10; j++) printf(" %02x", ((UByte *) &x)[j]); printf("\n"); }
		return 0;
	}
	if (argc >= 5 && !strcmp(argv[1], "s")) {
		uint64_t lo = strtoull(argv[2], 0, 0), hi = strtoull(argv[3], 0, 0), st = strtoull(argv[4], 0, 0), u;
		for (u = lo; u < hi; u += st) one_single((uint32_t) u);
	} else if (argc >= 4 && !strcmp(argv[1], "d")) {
		static const uint64_t fracs[] = { 0, 1, 2, 3, 0xfffffffffffffull, 0xffffffffffffeull, 0x8000000000000ull, 0x8000000000001ull,
			0x7ffffffffffffull, 0xaaaaaaaaaaaaaull, 0x5555555555555ull, 0x00000ffffffffull, 0xfffff00000000ull, 0x0000100000000ull, 0x00000ffffffffull };
		uint64_t e, s, k, n = strtoull(argv[3], 0, 0); unsigned i;
		rs = strtoull(argv[2], 0, 0) * 2654435761u + 88172645463325252ull;
		for (e = 0; e < 2048; e++) for (s = 0; s < 2; s++) {
			for (i = 0; i < sizeof fracs / sizeof fracs[0]; i++) one_double(s << 63 | e << 52 | fracs[i]);
			for (i = 0; i < 52; i++) one_double(s << 63 | e << 52 | 1ull << i);
		}
		for (k = 0; k < n; k++) {
			uint64_t u = rnd();
			if ((k & 7) == 0) u &= ~(0x7ffull << 52);                 /* subnormals */
			if ((k & 7) == 1) u = (u & ~(0x7ffull << 52)) | ((rnd() % 3 ? 1ull : 0x7feull) << 52);
			one_double(u);
		}
	} else { fprintf(stderr, "usage\n"); return 3; }
	printf("patterns=%lu mismatches=%lu normal=%lu subnormal=%lu zero=%lu inf=%lu nan=%lu\n", npat, nmis, cls[0], cls[1], cls[2], cls[3], cls[4]);
	return 0;
}
