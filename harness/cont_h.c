/* History replayer for table.c, btree.c, priq.c, bitv.c, intset.c, list.c, buffer.c.
 * One command per input line, one result line per command ("-" when the command has no result). */
#include "axlgen.h"
#include "table.h"
#include "btree.h"
#include "priq.h"
#include "bitv.h"
#include "intset.h"
#include "list.h"
#include "buffer.h"
#include "store.h"
#include <stdio.h>
#include <string.h>
#include <stdlib.h>

#define NSLOT 8
/* ---- table: keys are boxed longs so that equality is by content, hash is content % modulus */
static long tmod[NSLOT];
static int curtab;
typedef struct { long v; } Box;
static Box *box(long v) { Box *b = (Box *) stoAlloc(OB_Other, sizeof *b); b->v = v; return b; }
static Hash hfun(TblKey k) { long v = ((Box *) k)->v; return (Hash) (tmod[curtab] ? (unsigned long) v % tmod[curtab] : (unsigned long) v * 2654435761UL); }
static Bool efun(TblKey a, TblKey b) { return ((Box *) a)->v == ((Box *) b)->v; }
static Table tabs[NSLOT];
static TblElt incr(TblElt e) { return (TblElt) ((long) e + 1); }
static Bool isodd(TblElt e) { return ((long) e) & 1; }
static long nfreed;
static void cntfree(TblElt e) { nfreed++; }
static Bool peq(Pointer a, Pointer b) { return a == b; }
static int cmpl(const void *a, const void *b) { long x = *(const long *) a, y = *(const long *) b; return x < y ? -1 : x > y; }

static BTree bts[NSLOT];
static PriQ pqs[NSLOT];
static BitvClass bvc[NSLOT]; static Bitv bvs[NSLOT][4];
static IntSet iss[NSLOT];
static PointerList pls[NSLOT];
static Buffer bufs[NSLOT];

static void walk(BTree x, long *n, int *ok, BTreeKey *last)
{
	int i;
	for (i = 0; i < x->nKeys; i++) {
		if (!x->isLeaf) walk(x->part[i].branch, n, ok, last);
		if (*n && x->part[i].key < *last) *ok = 0;
		*last = x->part[i].key; (*n)++;
		printf(" %lu:%ld", (unsigned long) x->part[i].key, (long) x->part[i].entry);
	}
	if (!x->isLeaf) walk(x->part[x->nKeys].branch, n, ok, last);
}

int main(void)
{
	static char line[1 << 16];
	osInit();
	while (fgets(line, sizeof line, stdin)) {
		char m = line[0]; char op[32]; int id = 0; long a = 0, b = 0, c = 0; int n;
		op[0] = 0;
		n = sscanf(line + 1, " %31s %d %ld %ld %ld", op, &id, &a, &b, &c);
		if (n < 1) continue;
		if (id < 0 || id >= NSLOT) { printf("?id\n"); continue; }
#define IS(x) (!strcmp(op, x))
		if (m == 'T') {
			curtab = id;
			if IS("new") { if (tabs[id]) tblFree(tabs[id]); tmod[id] = a; tabs[id] = tblNew(hfun, efun); printf("-"); }
			else if IS("set") { TblElt r = tblSetElt(tabs[id], box(a), (TblElt) b); printf("%ld", (long) r); }
			else if IS("get") { Box k; k.v = a; printf("%ld", (long) tblElt(tabs[id], &k, (TblElt) -1L)); }
			else if IS("drop") { Box k; k.v = a; tabs[id] = tblDrop(tabs[id], &k); printf("-"); }
			else if IS("size") { printf("%lu", (unsigned long) tblSize(tabs[id])); }
			else if IS("copy") { int j = (int) a; curtab = j; if (tabs[j]) tblFree(tabs[j]); tmod[j] = tmod[id]; tabs[j] = tblCopy(tabs[id]); printf("-"); }
			else if IS("nmap") { tblNMap(incr, tabs[id]); printf("-"); }
			else if IS("rmodd") { nfreed = 0; tblRemoveIf(tabs[id], cntfree, isodd); printf("%ld", nfreed); }
			else if IS("iter") {
				TableIterator it; long cnt = 0, cap = 1024, *kv = malloc(cap * 2 * sizeof(long)), i;
				for (tblITER(it, tabs[id]); tblMORE(it); tblSTEP(it)) {
					if (cnt == cap) { cap *= 2; kv = realloc(kv, cap * 2 * sizeof(long)); }
					kv[2 * cnt] = ((Box *) tblKEY(it))->v; kv[2 * cnt + 1] = (long) tblELT(it); cnt++;
				}
				qsort(kv, cnt, 2 * sizeof(long), cmpl);
				printf("%ld", cnt);
				for (i = 0; i < cnt; i++) printf(" %ld:%ld", kv[2 * i], kv[2 * i + 1]);
				free(kv);
			}
			else printf("?op");
		} else if (m == 'B') {
			if IS("new") { if (bts[id]) btreeFree(bts[id]); bts[id] = btreeNew((Length) a); printf("-"); }
			else if IS("ins") { btreeInsert(&bts[id], (BTreeKey) a, (BTreeElt) b); printf("-"); }
			else if IS("del") { BTreeElt e = (BTreeElt) -7L; btreeDelete(&bts[id], (BTreeKey) a, &e); printf("%ld", (long) e); }
			else if IS("eq") { int ix; BTree x = btreeSearchEQ(bts[id], (BTreeKey) a, &ix); if (x) printf("%lu:%ld", (unsigned long) btreeKey(x, ix), (long) btreeElt(x, ix)); else printf("none"); }
			else if IS("ge") { int ix; BTree x = btreeSearchGE(bts[id], (BTreeKey) a, &ix); if (x) printf("%lu", (unsigned long) btreeKey(x, ix)); else printf("none"); }
			else if IS("min") { int ix; BTree x = btreeSearchMin(bts[id], &ix); printf("%lu", (unsigned long) btreeKey(x, ix)); }
			else if IS("max") { int ix; BTree x = btreeSearchMax(bts[id], &ix); printf("%lu", (unsigned long) btreeKey(x, ix)); }
			else if IS("check") { printf("%d", btreeCheck(bts[id])); }
			else if IS("walk") { long cnt = 0; int ok = 1; BTreeKey last = 0; printf("W"); walk(bts[id], &cnt, &ok, &last); printf(" n=%ld sorted=%d", cnt, ok); }
			else printf("?op");
		} else if (m == 'P') {
			if IS("new") { if (pqs[id]) priqFree(pqs[id]); pqs[id] = priqNew((Length) a); printf("-"); }
			else if IS("ins") { priqInsert(pqs[id], (PriQKey) a / 4.0, (PriQElt) b); printf("-"); }
			else if IS("min") { PriQKey k; PriQElt e = priqExtractMin(pqs[id], &k); printf("%g %ld", k * 4.0, (long) e); }
			else if IS("peek") { PriQKey k; PriQElt e = priqPeekMin(pqs[id], &k); printf("%g %ld", k * 4.0, (long) e); }
			else if IS("count") { printf("%lu", (unsigned long) priqCount(pqs[id])); }
			else if IS("heap") { Length i; int ok = 1; PriQ q = pqs[id]; for (i = 1; i < q->argc; i++) if (q->argv[(i - 1) / 2].key > q->argv[i].key) ok = 0; printf("%d", ok); }
			else if IS("check") { printf("%d", (int) priqCheck(pqs[id])); }
			else printf("?op");
		} else if (m == 'V') {
			Bitv *v = bvs[id];
			if IS("new") { int i; if (bvc[id]) { for (i = 0; i < 4; i++) bitvFree(bvs[id][i]); bitvClassDestroy(bvc[id]); }
				bvc[id] = bitvClassCreate((int) a); for (i = 0; i < 4; i++) { bvs[id][i] = bitvNew(bvc[id]); bitvClearAll(bvc[id], bvs[id][i]); } printf("-"); }
			else if IS("set") { bitvSet(bvc[id], v[a], (int) b); printf("-"); }
			else if IS("clear") { bitvClear(bvc[id], v[a], (int) b); printf("-"); }
			else if IS("test") { printf("%d", bitvTest(bvc[id], v[a], (int) b)); }
			else if IS("setall") { bitvSetAll(bvc[id], v[a]); printf("-"); }
			else if IS("clearall") { bitvClearAll(bvc[id], v[a]); printf("-"); }
			else if IS("copy") { bitvCopy(bvc[id], v[a], v[b]); printf("-"); }
			else if IS("not") { bitvNot(bvc[id], v[a], v[b]); printf("-"); }
			else if IS("and") { bitvAnd(bvc[id], v[a], v[b], v[c]); printf("-"); }
			else if IS("or") { bitvOr(bvc[id], v[a], v[b], v[c]); printf("-"); }
			else if IS("minus") { bitvMinus(bvc[id], v[a], v[b], v[c]); printf("-"); }
			else if IS("equal") { printf("%d", (int) !!bitvEqual(bvc[id], v[a], v[b])); }
			else if IS("max") { printf("%d", bitvMax(bvc[id], v[a])); }
			else if IS("count") { printf("%d", bitvCount(bvc[id], v[a])); }
			else if IS("countto") { printf("%d", bitvCountTo(bvc[id], v[a], (int) b)); }
			else if IS("uniq") { printf("%d", bitvUnique1IndexInRange(bvc[id], v[a], (int) b, (int) c)); }
			else if IS("toint") { printf("%d", bitvToInt(bvc[id], v[a])); }
			else if IS("frint") { bitvFree(v[a]); v[a] = bitvFromInt(bvc[id], (int) b); printf("-"); }
			else if IS("str") { String s = bitvToString(bvc[id], v[a]); printf("%s", s); strFree(s); }
			else if IS("dump") { int i; for (i = 0; i < bvc[id]->nbits; i++) putchar('0' + bitvTest(bvc[id], v[a], i)); if (!bvc[id]->nbits) putchar('-'); }
			else printf("?op");
		} else if (m == 'I') {
			if IS("new") { if (iss[id]) intSetFree(iss[id]); iss[id] = intSetNew((int) a); printf("-"); }
			else if IS("add") { intSetAdd(iss[id], (int) a); printf("-"); }
			else if IS("rem") { intSetRemove(iss[id], (int) a); printf("-"); }
			else if IS("mem") { printf("%d", (int) !!intSetMember(iss[id], (int) a)); }
			else printf("?op");
		} else if (m == 'L') {
			PointerList l = pls[id], t;
			if IS("nil") { listFree(Pointer)(pls[id]); pls[id] = 0; printf("-"); }
			else if IS("cons") { pls[id] = listCons(Pointer)((Pointer) a, l); printf("-"); }
			else if IS("nrev") { pls[id] = listNReverse(Pointer)(l); printf("-"); }
			else if IS("rev") { t = listReverse(Pointer)(l); listFree(Pointer)(l); pls[id] = t; printf("-"); }
			else if IS("copy") { listFree(Pointer)(pls[a]); pls[a] = listCopy(Pointer)(l); printf("-"); }
			else if IS("nconcat") { if ((int) a != id) { pls[id] = listNConcat(Pointer)(l, pls[a]); pls[a] = 0; } printf("-"); }
			else if IS("concat") { t = listConcat(Pointer)(l, pls[a]); listFree(Pointer)(pls[b]); pls[b] = listCopy(Pointer)(t); printf("-"); }
			else if IS("len") { printf("%lu", (unsigned long) listLength(Pointer)(l)); }
			else if IS("elt") { printf("%ld", (long) listElt(Pointer)(l, (Length) a)); }
			else if IS("memq") { printf("%d", (int) !!listMemq(Pointer)(l, (Pointer) a)); }
			else if IS("posq") { printf("%d", (int) listPosq(Pointer)(l, (Pointer) a)); }
			else if IS("nremove") { pls[id] = listNRemove(Pointer)(l, (Pointer) a, peq); printf("-"); }
			else if IS("drop") { t = listDrop(Pointer)(l, (Length) a); printf("%lu", (unsigned long) listLength(Pointer)(t)); }
			else if IS("islen") { printf("%d", (int) !!listIsLength(Pointer)(l, (Length) a)); }
			else if IS("last") { t = listLastCons(Pointer)(l); printf("%ld", t ? (long) car(t) : -1L); }
			else if IS("equal") { printf("%d", (int) !!listEqual(Pointer)(l, pls[a], peq)); }
			else if IS("dump") { printf("L"); for (t = l; t; t = cdr(t)) printf(" %ld", (long) car(t)); }
			else printf("?op");
		} else if (m == 'U') {
			Buffer u = bufs[id];
			if IS("new") { if (u) bufFree(u); bufs[id] = bufNew(); printf("-"); }
			else if IS("byte") { bufPutByte(u, (UByte) a); printf("-"); }
			else if IS("hint") { bufPutHInt(u, (UShort) a); printf("-"); }
			else if IS("sint") { bufPutSInt(u, (ULong) a); printf("-"); }
			else if IS("wrul") { bufWrULong(u, (ULong) a); printf("-"); }
			else if IS("wrus") { bufWrUShort(u, (UShort) a); printf("-"); }
			else if IS("str") { char s[300]; int i, k = (int) a % 250; for (i = 0; i < k; i++) s[i] = 'a' + (i + (int) b) % 26; s[k] = 0; bufWrString(u, s); printf("-"); }
			else if IS("chars") { char s[300]; int i, k = (int) a % 250; for (i = 0; i < k; i++) s[i] = 'A' + (i + (int) b) % 26; bufPutChars(u, s, k); printf("-"); }
			else if IS("pos") { printf("%lu", (unsigned long) bufPosition(u)); }
			else if IS("setpos") { bufSetPosition(u, (Length) a); printf("-"); }
			else if IS("start") { bufStart(u); printf("-"); }
			else if IS("gbyte") { printf("%u", (unsigned) bufGetByte(u)); }
			else if IS("ghint") { printf("%u", (unsigned) bufGetHInt(u)); }
			else if IS("gsint") { printf("%lu", (unsigned long) bufGetSInt(u)); }
			else if IS("rdul") { printf("%lu", (unsigned long) bufRdULong(u)); }
			else if IS("rdus") { printf("%u", (unsigned) bufRdUShort(u)); }
			else if IS("rdstr") { String s = bufRdString(u); printf("%s.", s); strFree(s); }
			else if IS("gchars") { char s[300]; int k = (int) a % 250; bufGetChars(u, s, k); s[k] = 0; printf("%s.", s); }
			else if IS("hex") { Length i, e = bufPosition(u); UByte *d = bufData(u); printf("H"); for (i = 0; i < e; i++) printf("%02x", d[i]); }
			else printf("?op");
		} else printf("?module");
		printf("\n");
		fflush(stdout);
	}
	return 0;
}
