/* History replayer with a shadow heap for store.c (the real B-tree allocator and collector).
 *
 * usage: store_h [-a N] [-v N] [-m]      -a audit every N steps (default 1), -v verify all patterns every N steps
 *                                        -m input holds several histories separated by "=" lines; each runs in a forked child
 * commands (one per line):
 *   mode auto|demand         collector level (demand: collection only at "g")
 *   a S N C                  slot S := stoAlloc(code C, N bytes)
 *   f S                      stoFree(slot S)
 *   r S N                    slot S := stoResize(slot S, N)
 *   c S C                    stoRecode(slot S, C)
 *   root S OFF / unroot S    keep a raw pointer to slot S (+OFF bytes: interior pointer) in the root array
 *   link S T OFF             store the address of slot T (+OFF: interior) in the first word of slot S (S needs >= 8 bytes)
 *   unlink S
 *   g                        stoGc()
 *   chain N SZ W / chaincheck / chaindrop    a chain of N blocks of SZ bytes linked through the first (W=0) or last (W=1) word,
 *                            rooted only at its head; walk it and check every node; forget it
 *   end
 * The shadow keeps only masked addresses, so it never keeps a block alive.  Code 21 is registered as
 * "has no internal pointers".  After a collection, blocks the shadow model finds unreachable are forgotten
 * (nothing is asserted about them); reachable ones must still be allocated, same size/code, pattern intact.
 * Output: "OK steps=... allocs=... gcs=... maxlive=..." or "VIOLATION <kind> step=<n> ...".  */
#include "axlgen.h"
#include "store.h"
#include <stdio.h>
#include <string.h>
#include <stdlib.h>
#include <stdint.h>
#include <unistd.h>
#include <sys/wait.h>

#define NS 4096
#define MASK 0xA5A5A5A5A5A5A5A5UL
#define NOPTR_CODE 21

static uintptr_t	sh_addr[NS];		/* masked address, 0 = empty slot */
static unsigned long	sh_req[NS], sh_size[NS];
static unsigned		sh_code[NS], sh_gen[NS];
static int		sh_link[NS];		/* slot linked from first word, -1 none */
static long		sh_linkoff[NS];		/* interior offset stored with the link */
static int		sh_rooted[NS];
static Pointer		roots[NS];		/* the only raw pointers the harness keeps */
static long		step, nalloc, ngc, maxlive, nlive, lostbytes;
static int		demand = 0, audit_every = 1, verify_every = 64;

#define PTR(s) ((char *) (sh_addr[s] ^ MASK))
#define PAT(s, k) ((unsigned char) ((s) * 131 + sh_gen[s] * 31 + (k) * 7 + 13))
#define POFF(s) (sh_req[s] >= 8 ? 8 : 0)

static void fail(const char *kind, int s, const char *more)
{
	printf("VIOLATION %s step=%ld slot=%d req=%lu size=%lu code=%u %s\n", kind, step, s,
	       s >= 0 ? sh_req[s] : 0, s >= 0 ? sh_size[s] : 0, s >= 0 ? sh_code[s] : 0, more ? more : "");
	fflush(stdout);
	_exit(1);
}

static void fill(int s)
{
	unsigned long k; char *p = PTR(s);
	for (k = POFF(s); k < sh_req[s]; k++) p[k] = PAT(s, k);
	if (sh_req[s] >= 8) *(Pointer *) p = 0;
}

static void verify(int s, unsigned long upto)
{
	unsigned long k; char *p = PTR(s);
	for (k = POFF(s); k < upto; k++)
		if ((unsigned char) p[k] != PAT(s, k)) { char b[80]; sprintf(b, "offset=%lu got=%02x want=%02x", k, (unsigned char) p[k], PAT(s, k)); fail("contents-changed", s, b); }
	if (sh_req[s] >= 8) {
		Pointer want = sh_link[s] >= 0 && sh_addr[sh_link[s]] ? (Pointer) (PTR(sh_link[s]) + sh_linkoff[s]) : 0;
		if (sh_link[s] >= 0 && !sh_addr[sh_link[s]]) return;	/* target forgotten: word is stale, ignore */
		if (*(Pointer *) p != want) fail("link-word-changed", s, "");
	}
}

static void check_block(int s)
{
	char *p = PTR(s); unsigned long sz; int t;
	if ((uintptr_t) p % alignof(MostAlignedType) != 0) fail("misaligned", s, "");
	sz = stoSize(p);
	if (sz < sh_req[s]) fail("too-small", s, "");
	if (sz != sh_size[s]) fail("size-changed", s, "");
	if (!stoIsPointer(p)) fail("not-a-block", s, "");
	if (stoCode(p) != sh_code[s]) fail("code-changed", s, "");
	for (t = 0; t < NS; t++) if (t != s && sh_addr[t]) {
		char *q = PTR(t);
		if (p < q + sh_size[t] && q < p + sz) { char b[80]; sprintf(b, "other=%d", t); fail("overlap", s, b); }
	}
}

static void verify_all(void)
{
	int s;
	for (s = 0; s < NS; s++) if (sh_addr[s]) {
		char *p = PTR(s);
		if (!stoIsPointer(p)) fail("not-a-block", s, "(sweep)");
		if (stoSize(p) != sh_size[s]) fail("size-changed", s, "(sweep)");
		if (stoCode(p) != sh_code[s]) fail("code-changed", s, "(sweep)");
		verify(s, sh_req[s]);
	}
}

/* A long chain of blocks outside the slot table: only its head is a root (static variable).  Each node links to the next
 * through its first or its last word and carries its index, so a walk can tell that every node survived a collection. */
static Pointer		chain_head;
static long		chain_n, chain_sz, chain_lastword;
static unsigned long	chain_bytes;

static void chain_build(long n, long sz, long lastword)
{
	long i; Pointer next = 0;
	if (sz < 24) sz = 24;
	sz = (sz + 7) & ~7L;
	chain_n = n; chain_sz = sz; chain_lastword = lastword; chain_bytes = 0;
	for (i = n; i >= 1; i--) {
		char *p = (char *) stoAlloc(OB_Other, sz); nalloc++;
		long *w = (long *) p, words = sz / 8, k;
		for (k = 0; k < words; k++) w[k] = 0;
		w[lastword ? 0 : 1] = i;				/* index */
		w[lastword ? 1 : 2] = (i * 2654435761UL) & 0xffffff;	/* small non-pointer pattern */
		*(Pointer *) (p + (lastword ? stoSize(p) - 8 : 0)) = next;	/* the block may be larger than asked for */
		next = (Pointer) p; chain_head = next;
		chain_bytes += stoSize(p);
	}
}

static void chain_check(void)
{
	char *p = (char *) chain_head; long i = 0;
	while (p) {
		long *w = (long *) p; char b[96];
		i++;
		if (!stoIsPointer(p)) { sprintf(b, "node=%ld", i); fail("chain-node-not-a-block", -1, b); }
		if (w[chain_lastword ? 0 : 1] != i || w[chain_lastword ? 1 : 2] != (long) ((i * 2654435761UL) & 0xffffff)) {
			sprintf(b, "node=%ld index-word=%ld", i, w[chain_lastword ? 0 : 1]); fail("chain-contents-changed", -1, b); }
		p = (char *) *(Pointer *) (p + (chain_lastword ? stoSize(p) - 8 : 0));
	}
	if (i != chain_n) { char b[64]; sprintf(b, "walked=%ld built=%ld", i, chain_n); fail("chain-length-changed", -1, b); }
}

/* A comb: W chains of D blocks each (linked through the first word), their heads in one array block that is the only root.
 * Many pieces at the same depth: whatever the marker uses to remember pending work is exercised at scale. */
static Pointer		*comb_arr;
static long		comb_w, comb_d;

static void comb_build(long w, long d)
{
	long i, k;
	comb_w = w; comb_d = d;
	comb_arr = (Pointer *) stoAlloc(OB_Other, w * sizeof(Pointer)); nalloc++;
	for (i = 0; i < w; i++) comb_arr[i] = 0;
	chain_bytes += stoSize((Pointer) comb_arr);
	for (i = 0; i < w; i++) {
		Pointer next = 0;
		for (k = d; k >= 1; k--) {
			long *q = (long *) stoAlloc(OB_Other, 24); nalloc++;
			q[0] = (long) next; q[1] = i * 1000003 + k; q[2] = 0;
			next = (Pointer) q; comb_arr[i] = next;
			chain_bytes += stoSize((Pointer) q);
		}
	}
}

static void comb_check(void)
{
	long i, k;
	if (!stoIsPointer((Pointer) comb_arr)) fail("comb-array-not-a-block", -1, "");
	for (i = 0; i < comb_w; i++) {
		long *q = (long *) comb_arr[i];
		for (k = 1; q; k++, q = (long *) q[0]) {
			char b[96];
			if (!stoIsPointer((Pointer) q)) { sprintf(b, "chain=%ld node=%ld", i, k); fail("comb-node-not-a-block", -1, b); }
			if (q[1] != i * 1000003 + k) { sprintf(b, "chain=%ld node=%ld word=%ld", i, k, q[1]); fail("comb-contents-changed", -1, b); }
		}
		if (k - 1 != comb_d) { char b[96]; sprintf(b, "chain=%ld walked=%ld built=%ld", i, k - 1, comb_d); fail("comb-length-changed", -1, b); }
	}
}

static void conservation(void)
{
	unsigned long live = 0, acct = stoBytesAlloc - stoBytesFree - stoBytesGc; int s;
	for (s = 0; s < NS; s++) if (sh_addr[s]) live += sh_size[s];
	live += chain_bytes;
	if (acct < live || acct > live + (unsigned long) lostbytes) {
		char b[120]; sprintf(b, "accounted=%lu shadow_live=%lu forgotten=%ld", acct, live, lostbytes);
		fail("conservation", -1, b);
	}
}

static void forget(int s)
{
	lostbytes += sh_size[s];
	sh_addr[s] = 0; roots[s] = 0; sh_rooted[s] = 0; sh_link[s] = -1; nlive--;
}

static void after_gc(void)
{
	static unsigned char reach[NS]; static int stack[NS]; int sp = 0, s;
	memset(reach, 0, sizeof reach);
	for (s = 0; s < NS; s++) if (sh_addr[s] && sh_rooted[s]) { reach[s] = 1; stack[sp++] = s; }
	while (sp) {
		s = stack[--sp];
		if (sh_code[s] != NOPTR_CODE && sh_link[s] >= 0 && sh_addr[sh_link[s]] && !reach[sh_link[s]]) { reach[sh_link[s]] = 1; stack[sp++] = sh_link[s]; }
	}
	for (s = 0; s < NS; s++) if (sh_addr[s] && !reach[s]) forget(s);
	for (s = 0; s < NS; s++) if (sh_addr[s] && sh_link[s] >= 0 && !sh_addr[sh_link[s]]) { sh_link[s] = -1; *(Pointer *) PTR(s) = 0; }
	verify_all();
}

static void __attribute__((noinline)) scrub_stack(void)
{
	volatile char buf[32768]; unsigned i;
	for (i = 0; i < sizeof buf; i++) buf[i] = 0;
}

static unsigned long lastgcbytes;
static void maybe_auto_gc(void)
{
	/* in automatic mode a collection may have happened inside the allocator */
	if (stoBytesGc != lastgcbytes) { lastgcbytes = stoBytesGc; if (!demand) { ngc++; after_gc(); } }
}

static int run_history(FILE *in)
{
	char line[256], op[16]; long a, b, c; int n, s, got_end = 0;
	{ StoInfoObj info; memset(&info, 0, sizeof info); info.code = NOPTR_CODE; info.hasPtrs = false; stoRegister(&info); }
	for (s = 0; s < NS; s++) sh_link[s] = -1;
	while (fgets(line, sizeof line, in)) {
		if (line[0] == '=') break;
		a = b = c = 0;
		n = sscanf(line, "%15s %ld %ld %ld", op, &a, &b, &c);
		if (n < 1) continue;
		step++;
		s = (int) a;
		if (!strcmp(op, "end")) { got_end = 1; continue; }
		if (!strcmp(op, "mode")) { continue; }
		if (!strcmp(op, "demand")) { demand = 1; stoCtl(StoCtl_GcLevel, StoCtl_GcLevel_Demand); continue; }
		if (strncmp(op, "chain", 5) && strncmp(op, "comb", 4) && (s < 0 || s >= NS)) fail("harness-bad-slot", -1, line);
		if (!strcmp(op, "a")) {
			char *p;
			if (sh_addr[s]) fail("harness-slot-busy", s, "");
			p = (char *) stoAlloc((unsigned) c, (ULong) b);
			nalloc++;
			if (!p) fail("alloc-null", s, "");
			roots[s] = p;			/* keep it alive across the bookkeeping below */
			maybe_auto_gc();
			sh_addr[s] = (uintptr_t) p ^ MASK; sh_req[s] = b; sh_size[s] = stoSize(p); sh_code[s] = (unsigned) c; sh_gen[s]++; sh_link[s] = -1;
			sh_rooted[s] = demand ? 0 : 1;
			if (demand) roots[s] = 0;
			nlive++; if (nlive > maxlive) maxlive = nlive;
			check_block(s);
			fill(s);
			p = 0;
		} else if (!strcmp(op, "f")) {
			if (!sh_addr[s]) continue;
			check_block(s); verify(s, sh_req[s]);
			{ char *p = PTR(s); int t; sh_addr[s] = 0; roots[s] = 0; sh_rooted[s] = 0; nlive--;
			  for (t = 0; t < NS; t++) if (sh_addr[t] && sh_link[t] == s) { sh_link[t] = -1; *(Pointer *) PTR(t) = 0; }
			  stoFree(p); }
		} else if (!strcmp(op, "r")) {
			char *p, *q; unsigned long keep;
			if (!sh_addr[s]) continue;
			check_block(s); verify(s, sh_req[s]);
			p = PTR(s);
			keep = sh_req[s] < (unsigned long) b ? sh_req[s] : (unsigned long) b;
			if ((sh_req[s] >= 8) != (b >= 8)) { /* link word layout changes: compare only the common pattern range */ }
			q = (char *) stoResize(p, (ULong) b);
			if (!q) fail("resize-null", s, "");
			if (sh_rooted[s]) roots[s] = q;
			maybe_auto_gc();
			{ unsigned long oldreq = sh_req[s], k, from; unsigned long oldoff = oldreq >= 8 ? 8 : 0;
			  sh_addr[s] = (uintptr_t) q ^ MASK; sh_size[s] = stoSize(q);
			  from = oldoff;
			  for (k = from; k < keep; k++)
				if ((unsigned char) q[k] != PAT(s, k)) { char bb[80]; sprintf(bb, "offset=%lu got=%02x want=%02x", k, (unsigned char) q[k], PAT(s, k)); sh_req[s] = b; fail("resize-lost-prefix", s, bb); }
			  sh_req[s] = b; sh_gen[s]++;
			  { int t = sh_link[s]; Pointer lw = (t >= 0 && sh_addr[t]) ? (Pointer) (PTR(t) + sh_linkoff[s]) : 0;
			    if (b < 8) sh_link[s] = -1;
			    check_block(s); fill(s);
			    if (b >= 8 && sh_link[s] >= 0) *(Pointer *) q = lw; }
			  { int t; for (t = 0; t < NS; t++) if (sh_addr[t] && sh_link[t] == s && t != s) { if ((unsigned long) sh_linkoff[t] >= sh_size[s]) sh_linkoff[t] = 0; *(Pointer *) PTR(t) = (Pointer) (q + sh_linkoff[t]); } }
			}
		} else if (!strcmp(op, "c")) {
			if (!sh_addr[s]) continue;
			stoRecode(PTR(s), (unsigned) b); sh_code[s] = (unsigned) b; check_block(s);
		} else if (!strcmp(op, "root")) {
			if (!sh_addr[s]) continue;
			if ((unsigned long) b >= sh_size[s]) b = 0;
			roots[s] = PTR(s) + b; sh_rooted[s] = 1;
		} else if (!strcmp(op, "unroot")) {
			if (!demand) continue;		/* in automatic mode everything stays rooted */
			roots[s] = 0; sh_rooted[s] = 0;
		} else if (!strcmp(op, "link")) {
			int t = (int) b;
			if (t < 0 || t >= NS || !sh_addr[s] || !sh_addr[t] || sh_req[s] < 8) continue;
			if ((unsigned long) c >= sh_size[t]) c = 0;
			*(Pointer *) PTR(s) = (Pointer) (PTR(t) + c); sh_link[s] = t; sh_linkoff[s] = c;
		} else if (!strcmp(op, "unlink")) {
			if (!sh_addr[s] || sh_req[s] < 8) continue;
			*(Pointer *) PTR(s) = 0; sh_link[s] = -1;
		} else if (!strcmp(op, "chain")) {		/* chain N SZ LASTWORD */
			chain_build(a, b, c);
		} else if (!strcmp(op, "comb")) {		/* comb W D */
			comb_build(a, b);
		} else if (!strcmp(op, "combcheck")) {
			comb_check();
		} else if (!strcmp(op, "combdrop")) {
			lostbytes += chain_bytes; chain_bytes = 0; comb_arr = 0; comb_w = 0;
		} else if (!strcmp(op, "chaincheck")) {
			chain_check();
		} else if (!strcmp(op, "chaindrop")) {
			lostbytes += chain_bytes; chain_bytes = 0; chain_head = 0; chain_n = 0;
		} else if (!strcmp(op, "g")) {
			scrub_stack();
			stoGc(); ngc++; lastgcbytes = stoBytesGc;
			after_gc();
		} else fail("harness-bad-op", -1, line);
		if (audit_every && step % audit_every == 0) stoAudit();
		if (verify_every && step % verify_every == 0) { verify_all(); conservation(); }
	}
	verify_all(); stoAudit(); conservation();
	printf("OK steps=%ld allocs=%ld gcs=%ld maxlive=%ld gcbytes=%lu heapbytes=%lu\n", step, nalloc, ngc, maxlive, (unsigned long) stoBytesGc, (unsigned long) stoBytesOwn);
	fflush(stdout);
	return got_end;
}

int main(int argc, char **argv)
{
	int i, multi = 0;
	for (i = 1; i < argc; i++) {
		if (!strcmp(argv[i], "-a") && i + 1 < argc) audit_every = atoi(argv[++i]);
		else if (!strcmp(argv[i], "-v") && i + 1 < argc) verify_every = atoi(argv[++i]);
		else if (!strcmp(argv[i], "-m")) multi = 1;
	}
	osInit();
	if (!multi) { run_history(stdin); return 0; }
	/* several histories: each in its own child, because the allocator cannot be reset */
	{
		static char line[256]; long h = 0;
		char *buf = 0; size_t cap = 0, len = 0;
		for (;;) {
			char *r = fgets(line, sizeof line, stdin);
			if (!r || line[0] == '=') {
				if (len) {
					pid_t pid; int st;
					fflush(stdout);
					pid = fork();
					if (pid == 0) {
						FILE *f = fmemopen(buf, len, "r");
						printf("H%ld ", h); run_history(f); _exit(0);
					}
					waitpid(pid, &st, 0);
					if (WIFSIGNALED(st)) { printf("H%ld VIOLATION signal %d\n", h, WTERMSIG(st)); }
					else if (WEXITSTATUS(st) > 1) { printf("H%ld VIOLATION exit %d\n", h, WEXITSTATUS(st)); }
					h++; len = 0;
				}
				if (!r) break;
				continue;
			}
			{ size_t l = strlen(line); if (len + l + 1 > cap) { cap = (cap + l + 1) * 2; buf = realloc(buf, cap); } memcpy(buf + len, line, l); len += l; }
		}
	}
	return 0;
}
