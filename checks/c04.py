#!/usr/bin/env python3
"""C04  Every builtin operation means the same wherever it is evaluated.
For each builtin of foamBValInfoTable (parsed from the snapshot's foam.c) one source file applies it to
constant tuples and prints the results; it is run -Q0 interpreted (interpreter evaluates), -Q0 through C
(C runtime evaluates) and -Q2 -Qinline-all interpreted (folder evaluates; the -Q2 .fm tells how many calls
were really folded).  Oracle: three-way equality, plus Python definitions on each op's domain."""
import os, sys, math, struct
sys.path.insert(0, os.path.dirname(os.path.dirname(os.path.abspath(__file__))))
from vf.core import *
from vf import routes

SCALAR = {'Bool', 'Char', 'SInt', 'HInt', 'Byte', 'BInt', 'SFlo', 'DFlo', 'Word'}
M63 = 1 << 63
def s64(x): return M63 * -1 <= x < M63
def w64(x):
    x &= (1 << 64) - 1
    return x - (1 << 64) if x >= M63 else x

def parse_table(path):
    s = open(path).read()
    a = s.index('struct foamBVal_info foamBValInfoTable[] = {'); b = s.index('};', a)
    ents = re.findall(r'\{\s*FOAM_BVal_(\w+)\s*,\s*0\s*,\s*"(\w+)"\s*,\s*(\d)\s*,\s*(\d+)\s*,\s*\{([^}]*)\}\s*,\s*(\w+)\s*,\s*(\d+)\s*,\s*\{([^}]*)\}\s*\}', s[a:b])
    ops = []
    for tag, name, sfx, argc, argt, rett, retc, retts in ents:
        argt = [x.strip().replace('FOAM_', '') for x in argt.split(',') if x.strip() and x.strip() != '0'][:int(argc)]
        rets = [x.strip().replace('FOAM_', '') for x in retts.split(',') if x.strip() and x.strip() != '0']
        rett = rett.replace('FOAM_', '')
        rets = rets if int(retc) > 1 else [rett]
        ops.append({'name': name, 'sfx': int(sfx), 'args': argt, 'rets': rets, 'argc': int(argc)})
    return ops

SKIP = {'Halt', 'ssaPhi', 'SIntTimesModInv', 'PlatformRTE', 'PlatformOS'}
MACHINE = set()
def machine_exports(path):
    """names imported from Builtin by the Machine domain (libfoamlib/al/machine.as)"""
    s = open(path).read()
    return set(re.findall(r'^\s*(\w+):\s*\(?[^;]*->[^;]*;', s, re.M))
def in_scope(op):
    if op['sfx'] or op['name'] in SKIP: return False
    if MACHINE and op['name'] not in MACHINE: return False
    if op['name'].startswith(('Ptr', 'Sto', 'List', 'Format', 'Scan', 'NewExport', 'AddTo', 'FreeExport')): return False
    if len(op['args']) != op['argc']: return False
    for a in op['args']:
        if a not in SCALAR and not (a == 'Arr' and op['name'].startswith('ArrTo')): return False
    for r in op['rets']:
        if r not in SCALAR: return False
    return True

# ---------------------------------------------------------------- operand sets
SINTS = [0, 1, -1, 2, -2, 3, 7, -7, 10, 63, 64, 65, 100, 127, 128, 255, 256, 32767, 32768, -32768, -32769, 65535, 65536,
         2**31 - 1, 2**31, -2**31, -2**31 - 1, 2**32 - 1, 2**32, 2**32 + 1, 2**62, 2**63 - 1, -2**63 + 1, -2**63, 12345678901, -98765432101]
BINTS = SINTS + [2**63, -2**63 - 1, 2**64 - 1, 2**64, 2**64 + 1, -2**64, 2**100 + 1, -(2**100) - 1, 2**200 - 1, 10**30, -10**30 + 7, 2**61, 2**62 - 1, -(2**62), 2**62 + 1]
CHARS = list(range(0, 128))
FLOATS = ['0.0', '1.0', '0.5', '1.5', '2.0', '3.0', '0.1', '10.0', '100.25', '1.0e10', '1.0e-10', '123456789.125', '3.4e38', '1.2e-38', '7.0', '0.333']
DFLOATS = FLOATS + ['1.7976931348623157e308', '2.2250738585072014e-308', '4.9e-324', '9007199254740993.0', '1.0e300', '1.0e-300']

def lit(t, v):
    if t == 'Bool': return 'true' if v else 'false'
    if t == 'SInt':
        if v == -2**63: return 'SIntPrev((-9223372036854775807)::SInt)'
        return '(%d)::SInt' % v if v >= 0 else '(-%d)::SInt' % -v
    if t == 'Char': return 'CharNum((%d)::SInt)' % v
    if t == 'HInt': return 'SIntToHInt(%s)' % lit('SInt', v)
    if t == 'Byte': return 'SIntToByte(%s)' % lit('SInt', v)
    if t == 'Word': return '(%s pretend Word)' % lit('SInt', v)
    if t == 'BInt': return '(%d)::BInt' % v if v >= 0 else '(-%d)::BInt' % -v
    if t == 'DFlo': return '(%s)::DFlo' % v if not v.startswith('-') else '(-%s)::DFlo' % v[1:]
    if t == 'SFlo': return '(%s)::SFlo' % v if not v.startswith('-') else '(-%s)::SFlo' % v[1:]
    if t == 'Arr': return '("%s" pretend Arr)' % v
    raise KeyError(t)

def values(t, op, pos, rng, full):
    n = op['name']
    if t == 'Bool': return [False, True]
    if t == 'Char': return CHARS if (full or len(op['args']) == 1) else rng.sample(CHARS, 24) + [0, 127, 65, 97, 48]
    if t == 'HInt': return [0, 1, -1, 2, 127, 128, 255, 256, 32767, -32768, 1000, -1000]
    if t == 'Byte': return [0, 1, 2, 127, 128, 254, 255]
    if t == 'Word': return [0, 1, -1, 2, 2**32 - 1, 2**32, 2**63 - 1, -2**63, 12345678901, 255]
    if t == 'SInt':
        if n in ('SIntShiftUp', 'SIntShiftDn', 'SIntBit', 'BIntShiftUp', 'BIntShiftDn', 'BIntBit', 'BIntShiftRem') and pos == 1:
            return [0, 1, 2, 15, 16, 30, 31, 32, 33, 62, 63] + ([64, 65, 100, 200] if n.startswith('BInt') else [])
        if n == 'BIntSIPower' and pos == 1: return [0, 1, 2, 3, 5, 10, 31, 64]
        if n in ('SFloRound', 'DFloRound') or (n.startswith(('SFloR', 'DFloR')) and pos == len(op['args']) - 1): return [0, 1, 2, 3, 4]
        if n == 'CharNum': return list(range(0, 128))
        if n == 'RawRepSize': return [0, 1, 2, 8, 100]
        return SINTS
    if t == 'BInt':
        if n == 'BIntBIPower' and pos == 1: return [0, 1, 2, 3, 7, 20, 64]
        if n == 'BIntPowerMod' and pos == 1: return [0, 1, 2, 5, 64, 2**64 + 3]
        return BINTS
    if t == 'DFlo': return DFLOATS + ['-' + x for x in DFLOATS[:10]]
    if t == 'SFlo': return FLOATS + ['-' + x for x in FLOATS[:10]]
    if t == 'Arr':
        if n in ('ArrToSInt',): return ['0', '1', '123', '9223372036854775807', '2147483648', '00042', '16rFF', '2r1011', '36rZZ']
        if n == 'ArrToBInt': return ['0', '123456789012345678901234567890', '18446744073709551616', '16rFFFFFFFFFFFFFFFFFFFF', '007']
        return ['0.0', '1.5', '0.1', '1e10', '2.5e-3', '123456789.123456789', '1.7976931348623157e308', '4.9e-324', '3.4028235e38']
    raise KeyError(t)

# ---------------------------------------------------------------- mathematical definitions (None = outside the domain)
def tdiv(a, b):
    q = abs(a) // abs(b)
    if (a < 0) != (b < 0): q = -q
    return q, a - q * b
def rng64(x): return x if s64(x) else None
def blen(a): return abs(a).bit_length()
DEFS = {
 'BoolNot': lambda a: not a, 'BoolAnd': lambda a, b: a and b, 'BoolOr': lambda a, b: a or b, 'BoolEQ': lambda a, b: a == b, 'BoolNE': lambda a, b: a != b,
 'CharIsDigit': lambda c: chr(c).isdigit() if c < 128 else None, 'CharIsLetter': lambda c: chr(c).isalpha() if c < 128 else None,
 'CharEQ': lambda a, b: a == b, 'CharNE': lambda a, b: a != b, 'CharLT': lambda a, b: a < b, 'CharLE': lambda a, b: a <= b,
 'CharLower': lambda c: ('c', ord(chr(c).lower())) if c < 128 else None, 'CharUpper': lambda c: ('c', ord(chr(c).upper())) if c < 128 else None,
 'CharOrd': lambda c: c, 'CharNum': lambda n: ('c', n) if 0 <= n < 128 else 'OUT',
 'SIntIsZero': lambda a: a == 0, 'SIntIsNeg': lambda a: a < 0, 'SIntIsPos': lambda a: a > 0, 'SIntIsEven': lambda a: a % 2 == 0, 'SIntIsOdd': lambda a: a % 2 == 1,
 'SIntEQ': lambda a, b: a == b, 'SIntNE': lambda a, b: a != b, 'SIntLT': lambda a, b: a < b, 'SIntLE': lambda a, b: a <= b,
 'SIntNegate': lambda a: rng64(-a), 'SIntPrev': lambda a: rng64(a - 1), 'SIntNext': lambda a: rng64(a + 1),
 'SIntPlus': lambda a, b: rng64(a + b), 'SIntMinus': lambda a, b: rng64(a - b), 'SIntTimes': lambda a, b: rng64(a * b),
 'SIntTimesPlus': lambda a, b, c: rng64(a * b + c) if s64(a * b) else None,
 'SIntMod': lambda a, b: a % b if (a >= 0 and b > 0) else None,
 'SIntQuo': lambda a, b: rng64(tdiv(a, b)[0]) if b != 0 else 'TRAP', 'SIntRem': lambda a, b: (tdiv(a, b)[1] if s64(tdiv(a, b)[0]) else None) if b != 0 else 'TRAP',
 'SIntDivide': lambda a, b: (('t', tdiv(a, b)) if s64(tdiv(a, b)[0]) else None) if b != 0 else 'TRAP',
 'SIntGcd': lambda a, b: rng64(math.gcd(a, b)) if (a != -2**63 and b != -2**63) else None,
 'SIntPlusMod': lambda a, b, m: (a + b) % m if (m > 0 and 0 <= a < m and 0 <= b < m) else None,
 'SIntMinusMod': lambda a, b, m: (a - b) % m if (m > 0 and 0 <= b <= a < m) else None,
 'SIntTimesMod': lambda a, b, m: (a * b) % m if (m > 0 and 0 <= a < m and 0 <= b < m and a * b < 2**63) else None,
 'SIntLength': lambda a: a.bit_length() if a > 0 else None,
 'SIntShiftUp': lambda a, n: rng64(a << n) if (0 <= n < 64 and a >= 0) else None, 'SIntShiftDn': lambda a, n: a >> n if (0 <= n < 64 and a >= 0) else None,
 'SIntBit': lambda a, n: bool((a >> n) & 1) if 0 <= n < 63 else None,
 'SIntNot': lambda a: ~a, 'SIntAnd': lambda a, b: a & b, 'SIntOr': lambda a, b: a | b, 'SIntXOr': lambda a, b: a ^ b,
 'BIntIsZero': lambda a: a == 0, 'BIntIsNeg': lambda a: a < 0, 'BIntIsPos': lambda a: a > 0, 'BIntIsEven': lambda a: a % 2 == 0, 'BIntIsOdd': lambda a: a % 2 == 1,
 'BIntEQ': lambda a, b: a == b, 'BIntNE': lambda a, b: a != b, 'BIntLT': lambda a, b: a < b, 'BIntLE': lambda a, b: a <= b,
 'BIntNegate': lambda a: ('i', -a), 'BIntPrev': lambda a: ('i', a - 1), 'BIntNext': lambda a: ('i', a + 1),
 'BIntPlus': lambda a, b: ('i', a + b), 'BIntMinus': lambda a, b: ('i', a - b), 'BIntTimes': lambda a, b: ('i', a * b), 'BIntTimesPlus': lambda a, b, c: ('i', a * b + c),
 'BIntMod': lambda a, b: ('TRAP' if b == 0 else (('i', a % b) if (a >= 0 and b > 0) else None)),
 'BIntQuo': lambda a, b: ('i', tdiv(a, b)[0]) if b != 0 else 'TRAP', 'BIntRem': lambda a, b: ('i', tdiv(a, b)[1]) if b != 0 else 'TRAP',
 'BIntDivide': lambda a, b: ('t', tdiv(a, b)) if b != 0 else 'TRAP', 'BIntGcd': lambda a, b: ('i', math.gcd(a, b)),
 'BIntSIPower': lambda a, n: ('i', a ** n) if (n >= 0 and blen(a) * n < 20000) else None,
 'BIntBIPower': lambda a, n: ('i', a ** n) if (0 <= n < 100 and blen(a) * n < 20000) else None,
 'BIntPowerMod': lambda a, b, c: ('i', pow(a, b, c)) if (a >= 0 and b >= 0 and c >= 2) else ('TRAP' if c == 0 else None),
 'BIntLength': lambda a: blen(a) if a != 0 else None,
 'BIntShiftUp': lambda a, n: ('i', a << n) if n >= 0 else None, 'BIntShiftDn': lambda a, n: ('i', (abs(a) >> n) * (1 if a >= 0 else -1)) if n >= 0 else None,
 'BIntShiftRem': lambda a, n: ('i', a & ((1 << n) - 1)) if (a >= 0 and 1 <= n <= 30 and (a < 2**62 or n < blen(a))) else None,
 'BIntBit': lambda a, n: bool((abs(a) >> n) & 1) if (n >= 0 and a >= 0) else None,
 'ByteToSInt': lambda a: a, 'SIntToByte': lambda a: ('b', a) if 0 <= a < 256 else None,
 'HIntToSInt': lambda a: a, 'SIntToHInt': lambda a: ('h', a) if -32768 <= a < 32768 else None,
 'SIntToBInt': lambda a: ('i', a), 'BIntToSInt': lambda a: a if s64(a) else None,
 'ArrToSInt': lambda s: int(s.split('r')[1], int(s.split('r')[0])) if 'r' in s else int(s),
 'ArrToBInt': lambda s: ('i', int(s.split('r')[1], int(s.split('r')[0])) if 'r' in s else int(s)),
}

def model(op, tup):
    """expected printed lines, 'TRAP', or None when no definition applies to this tuple"""
    f = DEFS.get(op['name'])
    if f is None: return None
    try: r = f(*tup)
    except Exception: return None
    if r is None: return None
    if r == 'TRAP': return 'TRAP'
    def one(x):
        if isinstance(x, bool): return 'T' if x else 'F'
        return str(x)
    if isinstance(r, tuple):
        if r[0] == 't': return [one(x) for x in r[1]]
        return [one(r[1])]
    return [one(r)]

HEAD = '''#include "aldor"
#include "aldorio"
import from Machine;
import {
%s
  CharOrd_: (Char) -> SInt;
} from Builtin;
import from MachineInteger, Integer, Boolean, String, DoubleFloat, SingleFloat;
pS(x: SInt): () == stdout << (x::MachineInteger) << newline;
pB(x: Bool): () == stdout << (x::Boolean) << newline;
pI(x: BInt): () == stdout << (x::Integer) << newline;
pD(x: DFlo): () == {
	(s: Bool, e: SInt, w0: Word, w1: Word) := DFloDissemble(x);
	stdout << "D " << (s::Boolean) << " " << (e::MachineInteger) << " " << ((w0 pretend SInt)::MachineInteger) << newline;
}
pF(x: SFlo): () == {
	(s: Bool, e: SInt, w0: Word) := SFloDissemble(x);
	stdout << "F " << (s::Boolean) << " " << (e::MachineInteger) << " " << ((w0 pretend SInt)::MachineInteger) << newline;
}
'''
HELPERS = {'SIntPrev': '(SInt) -> SInt', 'CharNum': '(SInt) -> Char', 'CharOrd': '(Char) -> SInt', 'SIntToHInt': '(SInt) -> HInt', 'HIntToSInt': '(HInt) -> SInt',
           'SIntToByte': '(SInt) -> Byte', 'ByteToSInt': '(Byte) -> SInt', 'DFloDissemble': '(DFlo) -> (Bool, SInt, Word, Word)', 'SFloDissemble': '(SFlo) -> (Bool, SInt, Word)'}

def sig(op):
    a = '(%s)' % ', '.join(op['args'])
    r = op['rets'][0] if len(op['rets']) == 1 else '(%s)' % ', '.join(op['rets'])
    return '%s -> %s' % (a, r)

def printer(t, e):
    return {'Bool': 'pB(%s);', 'SInt': 'pS(%s);', 'Char': 'pS(CharOrd(%s));', 'HInt': 'pS(HIntToSInt(%s));', 'Byte': 'pS(ByteToSInt(%s));',
            'BInt': 'pI(%s);', 'Word': 'pS(%s pretend SInt);', 'DFlo': 'pD(%s);', 'SFlo': 'pF(%s);'}[t] % e

def render(op, tuples):
    imps = dict(HELPERS); imps[op['name']] = sig(op)
    head = HEAD % '\n'.join('  %s: %s;' % kv for kv in sorted(imps.items()))
    head = head.replace('  CharOrd_: (Char) -> SInt;\n', '')
    lines = []
    for k, tup in enumerate(tuples):
        call = '%s(%s)' % (op['name'], ', '.join(lit(t, v) for t, v in zip(op['args'], tup)))
        lines.append('stdout << "@%d" << newline;' % k)
        if len(op['rets']) == 1:
            lines.append(printer(op['rets'][0], call))
        else:
            vs = ['zr%d_%d' % (k, j) for j in range(len(op['rets']))]
            lines.append('(%s) := %s;' % (', '.join('%s: %s' % (v, t) for v, t in zip(vs, op['rets'])), call))
            for v, t in zip(vs, op['rets']): lines.append(printer(t, v))
    return head + '\n'.join(lines) + '\n'

# ---- symbolic operands: the same operations on values the optimiser cannot know (elements of run-time lists), in the shapes the
# ---- peephole table rewrites: both operands the same expression, and one operand a literal identity/absorbing candidate.
# ---- (added after seeded change C02-peep-le-self: `x <= x' was folded to false; constant tuples never reach those rules.)
SYM_VALUES = {'SInt': [0, 1, -1, 2, -2, 7, 2147483648, 9223372036854775807, -9223372036854775807],
              'BInt': [0, 1, -1, 2, -7, 2**64 + 3, -(2**64) - 3], 'Bool': [False, True], 'Char': [0, 65, 97, 127],
              'HInt': [0, 1, -1, 127, -128, 32767], 'Byte': [0, 1, 128, 255], 'Word': [0, 1, -1, 4294967296],
              'DFlo': ['0.0', '1.0', '-1.0', '2.5', '1.0e300'], 'SFlo': ['0.0', '1.0', '-1.0', '2.5', '3.0e38']}
SYM_LITS = {'SInt': [0, 1, -1], 'BInt': [0, 1, -1], 'Bool': [False, True], 'Char': [0, 65], 'HInt': [0, 1, -1], 'Byte': [0, 1], 'Word': [0, 1],
            'DFlo': ['0.0', '1.0'], 'SFlo': ['0.0', '1.0']}
SYM_LIST = {'SInt': 'MachineInteger', 'BInt': 'Integer', 'Bool': 'Boolean', 'Char': 'MachineInteger', 'HInt': 'MachineInteger', 'Byte': 'MachineInteger',
            'Word': 'MachineInteger', 'DFlo': 'DoubleFloat', 'SFlo': 'SingleFloat'}
SYM_CONV = {'SInt': '(%s::SInt)', 'BInt': '(%s::BInt)', 'Bool': '(%s::Bool)', 'Char': 'CharNum(%s::SInt)', 'HInt': 'SIntToHInt(%s::SInt)',
            'Byte': 'SIntToByte(%s::SInt)', 'Word': '((%s::SInt) pretend Word)', 'DFlo': '(%s::DFlo)', 'SFlo': '(%s::SFlo)'}
SYM_EXCLUDE = re.compile(r'Quo|Rem|Divide|Mod|Gcd|Shift|Power|Bit|Dissemble|Assemble|RTimes|RPlus|RMinus|RDivide|Lcm')
def sym_eligible(op):
    return len(op['args']) == 2 and op['args'][0] == op['args'][1] and op['args'][0] in SYM_VALUES and not SYM_EXCLUDE.search(op['name'])
def srcval(t, v):
    if t == 'Bool': return 'true' if v else 'false'
    if t in ('DFlo', 'SFlo'): return v if not v.startswith('-') else '(-%s)' % v[1:]
    return str(v) if v >= 0 else '(-%d)' % -v
def render_sym(op):
    """returns (source text, tuples in the order their results are printed)"""
    t = op['args'][0]
    imps = dict(HELPERS); imps[op['name']] = sig(op)
    head = HEAD % '\n'.join('  %s: %s;' % kv for kv in sorted(imps.items()))
    head = head.replace('  CharOrd_: (Char) -> SInt;\n', '')
    vals = SYM_VALUES[t]; lits = SYM_LITS[t]
    L = ['import from List %s;' % SYM_LIST[t], 'zqn: MachineInteger := 0;',
         'zqA: List %s := [%s];' % (SYM_LIST[t], ', '.join(srcval(t, v) for v in vals))]
    mark = 'stdout << "@" << zqn << newline; zqn := zqn + 1; '
    cv = SYM_CONV[t]
    def out(e): return printer(op['rets'][0], e) if len(op['rets']) == 1 else None
    if len(op['rets']) != 1: return None, []
    tuples = []
    L.append('for zqa in zqA repeat for zqb in zqA repeat { %s%s }' % (mark, out('%s(%s, %s)' % (op['name'], cv % 'zqa', cv % 'zqb'))))
    tuples += [(a, b) for a in vals for b in vals]
    L.append('for zqa in zqA repeat { %s%s }' % (mark, out('%s(%s, %s)' % (op['name'], cv % 'zqa', cv % 'zqa'))))
    tuples += [(a, a) for a in vals]
    for l in lits:
        L.append('for zqa in zqA repeat { %s%s }' % (mark, out('%s(%s, %s)' % (op['name'], cv % 'zqa', lit(t, l)))))
        tuples += [(a, l) for a in vals]
        L.append('for zqa in zqA repeat { %s%s }' % (mark, out('%s(%s, %s)' % (op['name'], lit(t, l), cv % 'zqa'))))
        tuples += [(l, a) for a in vals]
    return head + '\n'.join(L) + '\n', tuples

def split_out(out):
    """{tuple index: [lines]}"""
    res = {}; cur = None
    for l in out.decode(errors='replace').split('\n'):
        if l.startswith('@') and l[1:].isdigit(): cur = int(l[1:]); res[cur] = []
        elif cur is not None and l != '': res[cur].append(l)
    return res

def normf(lines):
    out = []
    for l in lines:
        f = l.split(' ')
        if len(f) == 4 and f[0] == 'F':
            try: f[3] = str(int(f[3]) & 0xffffffff)
            except ValueError: pass
        out.append(' '.join(f))
    return out

def main():
    ctx = Ctx('C04', 'exploration', variants=('plain',))
    b = ctx.b; rng = ctx.rng
    MACHINE.update(machine_exports(os.path.join(b.B, 'aldor', 'lib', 'libfoamlib', 'al', 'machine.as')))
    allops = parse_table(os.path.join(b.S, 'foam.c'))
    ops = [o for o in allops if in_scope(o)]
    notdriven = sorted(o['name'] for o in allops if not in_scope(o))
    per_file = 250
    full = ctx.tier == 'thorough'
    jobs = []
    for op in ops:
        sets = [values(t, op, i, rng, full) for i, t in enumerate(op['args'])]
        prod = 1
        for s_ in sets: prod *= len(s_)
        budget = ctx.q(500, 6000)
        if prod <= budget:
            tuples = list(itertools.product(*sets)) if sets else [()]
        else:
            tuples = set()
            # boundary diagonal + random sample of the product
            for _ in range(budget): tuples.add(tuple(rng.choice(s_) for s_ in sets))
            tuples = sorted(tuples, key=repr)
        # tuples that trap (division by zero) would end the program: drop them, they are outside every domain
        tuples = [t for t in tuples if model(op, t) != 'TRAP']
        if op['name'] in ('SIntQuo', 'SIntRem', 'SIntDivide', 'SIntMod', 'BIntQuo', 'BIntRem', 'BIntDivide', 'BIntMod', 'SIntPlusMod', 'SIntMinusMod', 'SIntTimesMod', 'BIntPowerMod', 'SIntGcd'):
            tuples = [t for t in tuples if t[-1] != 0 and not (t[0] == -2**63 and t[-1] == -1)]
        # (a op b) may wrap to -2^63 before the reduction, and -2^63 % -1 is a hardware trap like division by zero: a modulus of -1 is outside every domain
        if op['name'] in ('SIntPlusMod', 'SIntMinusMod', 'SIntTimesMod'): tuples = [t for t in tuples if t[-1] != -1]
        if op['name'] in ('BIntSIPower', 'BIntBIPower'): tuples = [t for t in tuples if blen(t[0]) * t[1] < 20000]
        if op['name'] == 'BIntShiftRem': tuples = [t for t in tuples if DEFS['BIntShiftRem'](*t) is not None]
        if op['name'] == 'WordDivideDouble': tuples = [t for t in tuples if (t[2] & (2**64 - 1)) != 0 and (t[0] & (2**64 - 1)) < (t[2] & (2**64 - 1))]
        if op['name'] in ('DFloDivide', 'SFloDivide', 'SFloRDivide', 'DFloRDivide'): tuples = [t for t in tuples if float(t[1]) != 0.0]
        for i in range(0, len(tuples), per_file):
            jobs.append((op, i // per_file, tuples[i:i + per_file]))
    nsym = 0
    for op in ops:
        if sym_eligible(op):
            text, tuples = render_sym(op)
            if text: jobs.append((op, 'sym', tuples)); nsym += 1
    ctx.log('%d ops in scope, %d not driven, %d source files (%d with symbolic operands)' % (len(ops), len(notdriven), len(jobs), nsym))
    import itertools as _it
    def work(job):
        op, part, tuples = job
        d = ctx.tmp('%s_%s' % (op['name'], part))
        text = render_sym(op)[0] if part == 'sym' else render(op, tuples)
        res = {}
        for sub in ('i0', 'c0', 'i2'):
            os.makedirs(os.path.join(d, sub), exist_ok=True)
            open(os.path.join(d, sub, 'x.as'), 'w').write(text)
        res['interp'] = routes.interp_src(b, os.path.join(d, 'i0'), 'x.as', ['-Q0'])
        pc, g, exe = routes.compile_c(b, os.path.join(d, 'c0'), 'x.as', ['-Q0'])
        res['c'] = routes.run_exe(exe, os.path.join(d, 'c0')) if exe else (g or pc)
        pf = routes.aldor(b, ['-Q2', '-Qinline-all', '-Mno-warnings', '-Fao', '-Ffm', 'x.as'], os.path.join(d, 'i2'))
        remaining = None
        if pf.rc == 0:
            try:
                fm = open(os.path.join(d, 'i2', 'x.fm')).read()
                remaining = len(re.findall(r'\(BCall %s[\s)]' % re.escape(op['name']), fm))
            except OSError: pass
            res['fold'] = routes.interp_ao(b, os.path.join(d, 'i2'), 'x.ao')
        else: res['fold'] = pf
        shutil.rmtree(d, ignore_errors=True)
        return job, text, res, remaining
    ntuples = 0; ncmp = 0; nmodel = 0
    per_op = {}
    for (op, part, tuples), text, res, remaining in pmap(work, jobs):
        name = op['name']
        st = per_op.setdefault(name, {'tuples': 0, 'folded': 0, 'modelled': 0})
        outs = {}
        bad_route = False
        for route, p in res.items():
            ft = fault_text(p)
            if p.timeout or ft or (p.rc != 0):
                # a route that cannot even run the file
                ctx.violation('route-failed:%s:%s' % (name, route), 'op %s file %s: route %s: %s %s\n%s' % (name, part, route, p.cause, ft, (p.out[-600:] + p.err[-600:]).decode(errors='replace')), files={'x.as': text})
                bad_route = True
            outs[route] = split_out(p.out)
        st['tuples'] += len(tuples); ntuples += len(tuples)
        if remaining is not None: st['folded'] += max(0, len(tuples) - remaining)
        for k, tup in enumerate(tuples):
            got = {r: normf(outs[r].get(k, ['<missing>'])) for r in outs}
            if name == 'SFloDissemble':      # only 32 bits of the fraction word are defined
                for r in got:
                    if len(got[r]) == 3 and got[r][2].lstrip('-').isdigit(): got[r][2] = str(int(got[r][2]) & 0xffffffff)
            if name == 'DFloDissemble':      # the second fraction word is not written on a 64-bit machine
                for r in got: got[r] = got[r][:3]
            if bad_route and any(v == ['<missing>'] for v in got.values()): continue
            ncmp += 1
            vals = list(got.values())
            exp = model(op, tup)
            if exp is not None and exp != 'TRAP':
                nmodel += 1; st['modelled'] += 1
                for r, g in got.items():
                    if g != exp:
                        ctx.violation('wrong:%s:%s' % (name, r), '%s%s%s on %s: got %s, definition gives %s (others: %s)' % (name, tup, ' [run-time operands]' if part == 'sym' else '', r, g, exp, got), files={'x.as': text, 'tuple.txt': '%s %r' % (name, tup)})
            elif not all(v == vals[0] for v in vals):
                ctx.violation('disagree:%s' % name, '%s%s: %s' % (name, tup, got), files={'x.as': text, 'tuple.txt': '%s %r' % (name, tup)})
    never_folded = sorted(n for n, s_ in per_op.items() if s_['folded'] == 0)
    ctx.sample({'op': 'SIntQuo', 'line': 'pS(SIntQuo((-7)::SInt, (2)::SInt));'})
    ctx.sample({'per_op_example': {k: per_op[k] for k in list(per_op)[:6]}})
    ctx.assumptions += ['operand constants are built from literals through MachineInteger/Integer/float literal conversion and SIntToHInt/SIntToByte/CharNum, i.e. through the same evaluator as the op under test',
                        'outside an op\'s mathematical domain (overflow, shift count >= width, negative modulus, non-ASCII character) only agreement of the three evaluators is demanded',
                        'an op counts as folded only when its BCall node is gone from the -Q2 .fm; ops never folded are compared interpreter vs C only (listed in never_folded)']
    ctx.finish(ncmp, len(per_op), 'one evaluation = one (op, constant tuple) compared across interpreter(-Q0), C runtime(-Q0) and folder(-Q2 inline-all), and with the Python definition on the op\'s domain; distinct = ops driven',
               extra={'ops_driven': len(per_op), 'ops_not_driven': notdriven, 'tuples': ntuples, 'checked_against_definition': nmodel,
                      'folded_tuples': sum(s_['folded'] for s_ in per_op.values()), 'never_folded': never_folded, 'per_op': per_op},
               min_eval=1000, min_distinct=50)

import itertools
if __name__ == "__main__": main_guard(main)
