#!/usr/bin/env python3
"""C15  Diagnostics point at the right file, line and column.
Metamorphic relations on faulty programs (templates with planted faults, corpus sources that yield diagnostics):
inserting k code-free lines before a diagnostic shifts its line by exactly k and nothing else; moving the tail of a
program into an included file renames the file and restarts the line count; #line renumbers; padding the faulty line
with blanks shifts the column."""
import os, sys, random
sys.path.insert(0, os.path.dirname(os.path.dirname(os.path.abspath(__file__))))
from vf.core import *
from vf import routes, corpus

BASE = '''#include "aldor"
#include "aldorio"
import from MachineInteger, String;
f(n: MachineInteger): MachineInteger == n + 1;
g(s: String): String == s;
stdout << f(1) << newline;
%s
stdout << g("x") << newline;
h(a: MachineInteger, b: MachineInteger): MachineInteger == {
	a > b => a;
	%s
	b
}
stdout << h(1, 2) << newline;
%s
'''
FAULTS = ['zqundef(3);', 'stdout << f("abc") << newline;', 'y: MachineInteger := "s";', 'stdout << g(1, 2) << newline;', 'import from ZqNoSuchDomain;',
          'stdout << (1 +) << newline;', 'f := 3;', 'zz: ZqType := 1;', 'stdout << h(1) << newline;', '']
INNER = ['', 'zqinner(a);', 'c: String := a;', '']

DIAG = re.compile(r'^\[L(\d+) C(\d+)\] #(\d+) \(([A-Za-z ]+)\) (.*)$')
HEAD = re.compile(r'^"([^"]+)", line (\d+): ')

def diags(out):
    """list of dicts: line, col, sev, msg (first line), file (from the nearest preceding header, if any)"""
    res = []; cur_file = None; cur_line = None
    for l in out.decode(errors='replace').split('\n'):
        m = HEAD.match(l)
        if m: cur_file, cur_line = m.group(1), int(m.group(2)); continue
        m = DIAG.match(l)
        if m:
            d = {'line': int(m.group(1)), 'col': int(m.group(2)), 'sev': m.group(4), 'msg': m.group(5)}
            d['file'] = cur_file if cur_line == d['line'] else None
            res.append(d)
    return res

def sig(d): return (d['col'], d['sev'], re.sub(r'\bline \d+|\bL\d+', 'line N', d['msg']))

def main():
    ctx = Ctx('C15', 'exploration', variants=('plain',))
    b = ctx.b; rng = ctx.rng
    progs = []
    frng = random.Random('C15-fixed')
    for i in range(ctx.q(60, 200)):
        a, bb, c = frng.choice(FAULTS), frng.choice(INNER), frng.choice(FAULTS)
        if not (a or bb or c): continue
        progs.append(('tmpl%d' % i, 'aldor', None, BASE % (a, bb, c), True))
    # corpus sources with a few diagnostics
    srcs = corpus.sources(b)
    cand = frng.sample(srcs, min(len(srcs), ctx.q(400, 700)))
    base = ctx.tmp('w')
    def compile_(d, name, text, lib, srcdir, extra_files=None):
        os.makedirs(d, exist_ok=True)
        with open(os.path.join(d, name), 'w', encoding='latin-1') as fh: fh.write(text)
        for fn, tx in (extra_files or {}).items():
            with open(os.path.join(d, fn), 'w', encoding='latin-1') as fh: fh.write(tx)
        inc = ['-I' + srcdir] if srcdir else []
        return routes.aldor(b, inc + ['-Fao=out.ao', name], d, lib=lib, timeout=120)
    def probe(job):
        j, s_ = job
        try: t = open(s_['path'], encoding='latin-1').read()
        except OSError: return None
        if len(t) > 30000 or not t.isascii() or '#line' in t: return None
        # conditional regions swallow directives placed inside them, and local includes bring their own positions
        if re.search(r'^#(if|else|elseif|endif)', t, re.M): return None
        if any(not re.match(r'#include\s+"(axllib|aldor|aldorio|foamlib|axldem|algebra)(\.as)?"', l) for l in t.split('\n') if l.startswith('#include')): return None
        d = os.path.join(base, 'p%d' % j)
        p = compile_(d, 'x.as', t, s_['lib'], s_['dir'])
        shutil.rmtree(d, ignore_errors=True)
        ds = diags(p.out)
        if p.timeout or fault_text(p) or not (1 <= len(ds) <= 12): return None
        if any(dd['file'] not in (None, 'x.as') for dd in ds): return None     # diagnostics inside included files: not moved by edits of x.as
        return (s_['name'] + '/' + s_['lib'], s_['lib'], s_['dir'], t, False)
    for r in pmap(probe, list(enumerate(cand))):
        if r: progs.append(r)
    ctx.log('%d faulty programs (%d templates)' % (len(progs), sum(1 for p in progs if p[4])))
    KS = [1, 2, 7, 255, 256, 4095, 4096] + ([65535, 65536, 70000] if ctx.tier == 'thorough' else [65536])
    def work(job):
        j, (name, lib, srcdir, text, is_tmpl) = job
        lr = random.Random('%s/%d' % (name, ctx.seed))
        d = os.path.join(base, 'r%d' % j)
        p0 = compile_(os.path.join(d, 'o'), 'x.as', text, lib, srcdir)
        d0 = diags(p0.out)
        bad = []; ncmp = 0
        if not d0 or fault_text(p0): shutil.rmtree(d, ignore_errors=True); return name, text, bad, 0, len(d0)
        lines = text.split('\n')
        pile = bool(re.search(r'^#pile', text, re.M))
        def check(tag, text2, expect, extra=None, fname='x.as'):
            nonlocal ncmp
            p = compile_(os.path.join(d, tag), fname, text2, lib, srcdir, extra)
            d1 = diags(p.out); ncmp += 1
            got = [(x['line'], x['file']) + sig(x) for x in d1]
            exp = [(l_, f_) + s_ for (l_, f_, s_) in expect]
            # file names are only comparable where a header was printed in both
            def norm(lst): return [(l_, c, sv, m) for (l_, f_, c, sv, m) in lst]
            if norm(got) != norm(exp) or (p.rc != 0) != (p0.rc != 0):
                bad.append((tag, text2, extra, 'expected %s\n got %s' % (exp[:6], got[:6])))
                return
            for (gl, gf, *_), (el, ef, *_) in zip(got, exp):
                if ef is not None and gf is not None and gf != ef: bad.append((tag + ':file', text2, extra, 'expected file %s got %s' % (ef, gf))); return
                if ef is not None and gf is None and tag.startswith(('include', 'linefile')): bad.append((tag + ':nofile', text2, extra, 'diagnostic at L%d does not name file %s' % (el, ef))); return
        # R1: insert k code-free lines at p
        for _ in range(ctx.q(6, 12)):
            k = lr.choice(KS)
            p_ = lr.randint(1, len(lines))          # insert before (1-based) line p_
            if lines[p_ - 1].startswith('#') and p_ > 1 and lines[p_ - 2].rstrip().endswith('_'): continue
            kind = lr.choice(['blank', 'comment', 'ifblock'])
            if kind == 'blank': ins = [''] * k
            elif kind == 'comment': ins = ['-- zq comment %d' % i for i in range(k)]
            else: ins = (['#if ZqNeverAsserted'] + ['skipped ( text "' for _ in range(k - 2)] + ['#endif']) if k >= 2 else ['']
            new = lines[:p_ - 1] + ins + lines[p_ - 1:]
            expect = [((x['line'] + k) if x['line'] >= p_ else x['line'], None, sig(x)) for x in d0]
            check('insert-%s-k%d' % (kind, k), '\n'.join(new), expect)
        # R3: #line N before line p_
        if True:
            p_ = lr.randint(1, len(lines)); N = lr.choice([len(lines) + 17, 5000, 65536, 100000])       # keeps the numbering increasing: positions are ordered by line number
            if not (p_ > 1 and lines[p_ - 2].rstrip().endswith('_')):
                new = lines[:p_ - 1] + ['#line %d' % N] + lines[p_ - 1:]
                expect = [((N + x['line'] - p_) if x['line'] >= p_ else x['line'], None, sig(x)) for x in d0]
                check('line-N%d' % N, '\n'.join(new), expect)
        if is_tmpl:
            # R2: tail of the program in an included file (split at a top-level statement boundary of the template)
            tops = [i for i, l in enumerate(lines) if i >= 6 and l and not l.startswith(('\t', '}', '#'))]
            if tops:
                cut = lr.choice(tops)       # 0-based index of first line moved
                main = lines[:cut] + ['#include "zqinc.as"']
                inc = lines[cut:]
                expect = []
                for x in d0:
                    if x['line'] - 1 >= cut: expect.append((x['line'] - cut, 'zqinc.as', sig(x)))
                    else: expect.append((x['line'], 'x.as', sig(x)))
                expect.sort(key=lambda e: (0 if e[1] == 'x.as' and e[0] <= cut else 1, e[0]))
                check('include-cut%d' % cut, '\n'.join(main) + '\n', expect, {'zqinc.as': '\n'.join(inc)})
                # R4: #line N "file" naming an existing file with enough text
                N = lr.choice([10, 300])
                p_ = cut + 1
                new = lines[:cut] + ['#line %d "zqother.as"' % N] + lines[cut:]
                other = '\n'.join(['-- filler line %d' % i for i in range(1, N)] + lines[cut:]) + '\n'
                expect = [((N + x['line'] - p_), 'zqother.as', sig(x)) if x['line'] >= p_ else (x['line'], 'x.as', sig(x)) for x in d0]
                check('linefile-N%d' % N, '\n'.join(new), expect, {'zqother.as': other})
            # R2b: one faulty top-level line moved into a file included in the MIDDLE of the program (the includer continues after
            # it), with k code-free lines in front of it, k = 0 included: the diagnostic must name the included file and line
            # k + 1, everything else keeps its place (added after seeded change C15-include-first-line-file: the first line of
            # an included file is a boundary of the line table)
            cands = sorted(set(x['line'] for x in d0 if x['line'] > 6 and lines[x['line'] - 1] and not lines[x['line'] - 1].startswith(('\t', '}', '#', ' '))))
            for F in cands[:2]:
                for k in (0, lr.choice([1, 2, 7])):
                    main = lines[:F - 1] + ['#include "zqmid.as"'] + lines[F:]
                    inc = ['-- zq filler'] * k + [lines[F - 1]]
                    expect = [((k + 1, 'zqmid.as', sig(x)) if x['line'] == F else (x['line'], 'x.as', sig(x))) for x in d0]
                    check('include-mid-k%d' % k, '\n'.join(main), expect, {'zqmid.as': '\n'.join(inc) + '\n'})
            # R5: pad the faulty line
            flines = sorted(set(x['line'] for x in d0))
            L = lr.choice(flines)
            if not lines[L - 1].startswith('#') and '\t' not in lines[L - 1]:
                pad = lr.choice([1, 7, 80, 1000, 16000, 16384 + 7, 20000] if ctx.tier == 'thorough' else [1, 80, 1000, 16000, 17000])
                new = list(lines); new[L - 1] = ' ' * pad + new[L - 1]
                expect = [(x['line'], None, ((x['col'] + pad) if x['line'] == L else x['col'],) + sig(x)[1:]) for x in d0]
                check('pad%d' % pad, '\n'.join(new), expect)
        shutil.rmtree(d, ignore_errors=True)
        return name, text, bad, ncmp, len(d0)
    ncmp = 0; nprog = 0; ndiag = 0
    for name, text, bad, n, nd in pmap(work, list(enumerate(progs))):
        ncmp += n
        if n: nprog += 1; ndiag += nd
        for tag, text2, extra, what in bad:
            kind = re.sub(r'\d+', '', tag.split(':')[0])
            if tag.startswith('pad') and int(re.sub(r'\D', '', tag.split(':')[0])) + 1 >= 16384 - 200:
                key = 'column>=16384-overflows-into-line'
            else: key = 'position:%s:%s' % (kind, name if not name.startswith('tmpl') else 'template')
            files = {'orig.as': text, 'transformed.as': text2}
            for fn, tx in (extra or {}).items(): files[fn] = tx
            ctx.violation(key, '%s on %s: %s' % (tag, name, what), files)
    ctx.sample({'template_fault': FAULTS[1], 'relations': ['insert k code-free lines', '#line N', 'tail into #include', '#line N "file"', 'pad faulty line']})
    ctx.assumptions += ['message texts are compared after replacing embedded line numbers; the column is compared exactly', 'a diagnostic names its file through the "file", line N: header, which the compiler prints when it can show the source excerpt']
    ctx.finish(ncmp, nprog, 'one evaluation = one transformed faulty program whose diagnostics are compared with the transformed expectation; distinct = faulty programs with at least one diagnostic',
               extra={'faulty_programs': nprog, 'diagnostics_tracked': ndiag, 'k_values': KS}, min_eval=100)

main_guard(main)
