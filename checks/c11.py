#!/usr/bin/env python3
"""C11  Big-integer arithmetic is exact.
Oracle: Python integers.  Subject: the repository's bigint.c / foam_i.c through harness/bigint_h.c,
built twice (real allocator, and malloc store + ASan/bounds)."""
import os, sys
sys.path.insert(0, os.path.dirname(os.path.dirname(os.path.abspath(__file__))))
from vf.core import *
import math

DIG = 32

def hx(v): return ('-' if v < 0 else '') + format(abs(v), 'x')
def un(s): return -int(s[1:], 16) if s.startswith('-') else int(s, 16)
def tdiv(a, b):
    q = abs(a) // abs(b)
    if (a < 0) != (b < 0): q = -q
    return q, a - q * b
def torad(v, r):
    digs = '0123456789ABCDEFGHIJKLMNOPQRSTUVWXYZ'
    n = abs(v); s = ''
    while True:
        s = digs[n % r] + s; n //= r
        if n == 0: break
    return ('-' if v < 0 else '') + s

def boundary_values():
    vs = set()
    for k in range(0, 201):
        for d in (-2, -1, 0, 1, 2):
            vs.add((1 << k) + d); vs.add(-((1 << k) + d))
    for m in range(1, 9):                      # digit patterns over m 32-bit digits
        ones = (1 << (DIG * m)) - 1
        vs |= {ones, 1 << (DIG * m - 1), int('a' * (8 * m), 16), int('5' * (8 * m), 16), ones - 1, ones + 1,
               (1 << (16 * m)) - 1, 1 << (16 * m)}
    vs |= {-v for v in vs}
    return sorted(vs)

def rnd_value(rng):
    c = rng.random()
    if c < 0.25:
        bits = rng.choice([1, 8, 16, 31, 32, 33, 61, 62, 63, 64, 65, 96, 128])
        v = rng.getrandbits(bits)
    elif c < 0.55:
        nd = rng.randint(1, rng.choice([3, 6, 20, 125]))
        v = 0
        for _ in range(nd):
            d = rng.choice([0, 1, 0xffffffff, 0x80000000, 0x7fffffff, 0xffff0000, 0x0000ffff, rng.getrandbits(32), rng.getrandbits(32)])
            v = (v << 32) | d
    elif c < 0.7:
        k = rng.randint(0, 4000); v = (1 << k) + rng.randint(-2, 2)
    else:
        v = rng.getrandbits(rng.randint(1, 4000))
    return -v if rng.random() < 0.4 else v

def knuth_pair(rng):
    """dividend/divisor pairs aimed at the qhat correction step: top digits equal / qhat overestimates."""
    nb = rng.randint(2, 6)
    top = rng.choice([0x80000000, 0xffffffff, 0x80000001, 0xfffffffe, rng.getrandbits(32) | 0x80000000, rng.getrandbits(31) | 1])
    b = top
    for _ in range(nb - 1):
        b = (b << 32) | rng.choice([0, 0xffffffff, rng.getrandbits(32), 1])
    q = rng.choice([0xffffffff, 0xfffffffe, 0x100000000, (1 << 64) - 1, rng.getrandbits(64), rng.getrandbits(32), (1 << 32) + 1])
    r = rng.choice([0, b - 1, rng.randrange(b), 1])
    a = q * b + r
    if rng.random() < 0.5: a = (b << (32 * rng.randint(0, 3))) - rng.choice([0, 1, 2])   # equal top digits
    if rng.random() < 0.3: a = -a
    if rng.random() < 0.3: b = -b
    return a, b

# ---- expected results; return None when the case is outside the op's defined domain
def expect(op, a, b, n, c=None):
    if op in ('id', 'copy', 'rt'): return hx(a)
    if op == 'neg': return hx(-a)
    if op == 'abs': return hx(abs(a))
    if op == 'add': return hx(a + b)
    if op == 'sub': return hx(a - b)
    if op == 'mul': return hx(a * b)
    if op in ('div', 'fidiv'):
        q, r = tdiv(a, b); return hx(q) + ' ' + hx(r)
    if op == 'fiquo': return hx(tdiv(a, b)[0])
    if op == 'firem': return hx(tdiv(a, b)[1])
    if op in ('mod', 'fimod'):
        if a >= 0 and b > 0: return hx(a % b)
        return ('cong', a, abs(b))
    if op == 'figcd': return hx(math.gcd(a, b))
    if op == 'sipow': return hx(a ** n)
    if op == 'bipow': return hx(a ** b)
    if op == 'pm':
        if a >= 0: return hx(pow(a, b, c))
        return ('cong', pow(a, b, c), c)
    if op == 'tplus': return hx(a * b + c)
    if op == 'eq': return str(int(a == b))
    if op == 'lt': return str(int(a < b))
    if op == 'gt': return str(int(a > b))
    if op == 'file': return '%d %d %d' % (a <= b, a != b, a < b)
    if op == 'sgn': return '%d %d %d' % (a < 0, a == 0, a > 0)
    if op == 'len': return str(abs(a).bit_length()) if a != 0 else None
    if op == 'bit': return str((abs(a) >> n) & 1)
    if op == 'shl': return hx(a << n)
    if op == 'shr': return hx((abs(a) >> n) * (-1 if a < 0 else 1))
    if op == 'shrem':
        # only caller: util.c with n = 30 on a long operand; not exported by Machine.  Domain kept to
        # what the implementation defines: n < 31 for immediate operands, n < bit length for allocated ones.
        if a < 0 or n < 1: return None
        if n > 30: return None
        if a < (1 << 62): return hx(a & ((1 << n) - 1))
        return hx(a & ((1 << n) - 1)) if n < a.bit_length() else None
    if op == 'tosint': return str(a)
    if op in ('new', 'frsint'): return hx(n)
    if op == 'tostr': return str(a)
    if op == 'strsz': return '1'
    if op == 'todflo':
        try: return '%.17g' % float(a)
        except OverflowError: return '-inf' if a < 0 else 'inf'
    raise KeyError(op)

def gen_cases(rng, count, bvals):
    """yield (op, a, b, n, c, line)"""
    cases = []
    def val():
        return rng.choice(bvals) if rng.random() < 0.35 else rnd_value(rng)
    binops = ['add', 'sub', 'mul', 'div', 'fidiv', 'fiquo', 'firem', 'mod', 'fimod', 'figcd', 'eq', 'lt', 'gt', 'file']
    unops = ['id', 'copy', 'rt', 'neg', 'abs', 'sgn', 'len', 'tostr', 'strsz', 'todflo']
    for i in range(count):
        r = rng.random()
        if r < 0.45:
            op = rng.choice(binops)
            if op in ('div', 'fidiv', 'fiquo', 'firem', 'mod', 'fimod') and rng.random() < 0.4:
                a, b = knuth_pair(rng)
            else:
                a, b = val(), val()
                if rng.random() < 0.1: b = a + rng.randint(-1, 1)
                if rng.random() < 0.05: b = -a
            if op in ('div', 'fidiv', 'fiquo', 'firem', 'mod', 'fimod') and b == 0: b = 1
            if op == 'figcd' and abs(a).bit_length() + abs(b).bit_length() > 3000:
                a >>= max(0, abs(a).bit_length() - 1200) if a > 0 else 0
            cases.append((op, a, b, 0, None))
        elif r < 0.65:
            cases.append((rng.choice(unops), val(), 0, 0, None))
        elif r < 0.8:
            op = rng.choice(['shl', 'shr', 'bit', 'shrem'])
            a = val()
            n = rng.choice([0, 1, 15, 16, 17, 30, 31, 32, 33, 61, 62, 63, 64, 65, rng.randint(0, 300), rng.randint(0, 4200)])
            if op == 'shrem':
                a = abs(a)
                n = rng.choice([30, 30, rng.randint(1, 30)])
            cases.append((op, a, 0, n, None))
        elif r < 0.86:
            a = val()
            if abs(a).bit_length() > 200: a = rng.choice(bvals[:300]) if False else (a >> (abs(a).bit_length() - 200) if a > 0 else a % (1 << 200))
            n = rng.randint(0, 40)
            if rng.random() < 0.5: cases.append(('sipow', a, 0, n, None))
            else: cases.append(('bipow', a, n, 0, None))
        elif r < 0.92:
            a, b, c = val(), abs(val()), abs(val())
            if c < 2: c = 2 + rng.getrandbits(70)
            if b.bit_length() > 256: b >>= (b.bit_length() - rng.randint(1, 256))
            if abs(a).bit_length() > 1500: a = a % (1 << 1500)
            if c.bit_length() > 1500: c = (c >> (c.bit_length() - 1500)) | 2
            cases.append(('pm', a, b, 0, c))
        elif r < 0.95:
            cases.append(('tplus', val(), val(), 0, val()))
        else:
            n = rng.choice([0, 1, -1, 2**31 - 1, 2**31, -2**31, -2**31 - 1, 2**61, 2**61 - 1, -2**61, 2**62 - 1, 2**62, -2**62, -2**62 - 1, 2**63 - 1, -2**63, rng.randint(-2**63, 2**63 - 1)])
            op = rng.choice(['new', 'frsint', 'tosint'])
            if op == 'tosint': cases.append((op, n, 0, 0, None))
            else: cases.append((op, 0, 0, n, None))
    return cases

# ---- composition: stack programs whose intermediate results are used as operands and compared without leaving the
# ---- implementation.  The same value is reached by different routes (general-path arithmetic, machine-integer conversion,
# ---- text, digits) and must compare equal; ordering must match Python's.
IMMED_EDGES = [(1 << k) + d for k in (29, 30, 31, 32, 61, 62, 63, 64) for d in (-2, -1, 0, 1, 2)]
def lit(rng, v):
    """one of the constructors that can make v"""
    ch = ['h', 's']
    if -2**63 <= v < 2**63: ch += ['n', 'n']
    k = rng.choice(ch)
    return {'h': 'x' + hx(v), 's': 's%d' % v, 'n': 'n%d' % v}[k]
def route(rng, t, depth=0):
    """tokens that compute t"""
    r = rng.random()
    if depth > 2 or r < 0.18: return [lit(rng, t)]
    def sub(v): return route(rng, v, depth + 1)
    big = rng.choice([1, 2, 3, 5, 1 << 31, 1 << 32, (1 << 62) - 1, 1 << 62, 1 << 63, (1 << 64) + 1, rng.getrandbits(rng.choice([3, 30, 62, 64, 100]))  + 1])
    if rng.random() < 0.5: big = -big
    k = rng.randrange(12)
    if k == 0: return sub(t - big) + sub(big) + ['+']
    if k == 1: return sub(t + big) + sub(big) + ['-']
    if k == 2: return sub(t * big) + sub(big) + ['q']
    if k == 3:
        m = abs(big) + abs(t) + 1
        return sub(t + m * rng.choice([1, 2]) if t >= 0 else t - m * rng.choice([1, 2])) + sub(m) + ['r'] if t != 0 else sub(0)
    if k == 4: return sub(-t) + ['~']
    if k == 5: return sub(rng.choice([t, -t]) if t >= 0 else t) + (['a'] if t >= 0 else [])
    if k == 6:
        n = rng.choice([1, 2, 30, 31, 32, 33, 62, 64])
        return sub(t << n) + ['>%d' % n]
    if k == 7:
        n = rng.choice([1, 2, 30, 31, 32])
        if t % (1 << n) == 0: return sub(t >> n) + ['<%d' % n]
        return sub(t) + ['c']
    if k == 8:
        # t = q*b + rem, as a product plus a remainder
        b = abs(big) + 1
        q, rem = tdiv(t, b)
        return sub(q) + sub(b) + ['*'] + sub(rem) + ['+']
    if k == 9: return sub(t) + sub(1) + ['*']
    if k == 10:
        return sub(t * abs(big)) + sub(abs(big) * rng.choice([1, 1, 2, 3])) + ['g'] if False else sub(t) + sub(0) + ['+']
    return sub(t - 1) + sub(1) + ['+']
def rpn_eval(tokens):
    st = []; out = []
    for tk in tokens:
        c0 = tk[0]
        if c0 == 'n' or c0 == 's': st.append(int(tk[1:]))
        elif c0 == '<': st[-1] = st[-1] << int(tk[1:])
        elif c0 == '>':
            n = int(tk[1:]); a = st[-1]; st[-1] = (abs(a) >> n) * (-1 if a < 0 else 1)
        elif c0 == 'p': st[-1] = st[-1] ** int(tk[1:])
        elif tk == '~': st[-1] = -st[-1]
        elif tk == 'a': st[-1] = abs(st[-1])
        elif tk == 'c': pass
        elif tk == '.': out.append(hx(st[-1]))
        elif tk == '?':
            x, y = st[-2], st[-1]
            out.append('%d%d%d%d%d%d%d%d' % (x == y, x < y, x > y, y == x, y < x, y > x, x <= y, x != y))
        elif tk in ('+', '-', '*', 'q', 'r', 'm', 'g'):
            y = st.pop(); x = st.pop()
            if tk == '+': z = x + y
            elif tk == '-': z = x - y
            elif tk == '*': z = x * y
            elif tk == 'q': z = tdiv(x, y)[0]
            elif tk == 'r': z = tdiv(x, y)[1]
            elif tk == 'm': z = x % y
            else: z = math.gcd(x, y)
            st.append(z)
        else: st.append(un(tk[1:]))
    return ' '.join(out) + ' ' if out else ''
def rpn_cases(rng, count, bvals):
    res = []
    for i in range(count):
        r = rng.random()
        if r < 0.5: t = rng.choice(IMMED_EDGES) * rng.choice([1, -1])
        elif r < 0.8: t = rng.choice(bvals)
        else: t = rnd_value(rng) >> rng.choice([0, 0, 100, 1000, 3000])
        if abs(t).bit_length() > 1500: t >>= (abs(t).bit_length() - 1500) if t > 0 else 0
        toks = route(rng, t)
        k = rng.random()
        if k < 0.6: toks += route(rng, t) + ['?', '.']            # same value by two routes
        elif k < 0.85: toks += route(rng, t + rng.choice([-1, 1, -2, 2, 1 << 32, -(1 << 62)])) + ['?', '.']
        else: toks += route(rng, rnd_value(rng) >> 2000) + ['?', '+', '.']
        res.append(toks)
    return res

def line_of(case):
    op, a, b, n, c = case
    if op in ('pm', 'tplus'): return '%s %s %s %s' % (op, hx(a), hx(b), hx(c))
    return '%s %s %s %d' % (op, hx(a), hx(b), n)

def string_cases(rng, count, bvals):
    """text -> value cases: ('frstr'|'scan'|'rscan', text, expected value, expected end)"""
    res = []
    for i in range(count):
        v = rng.choice(bvals) if rng.random() < 0.4 else rnd_value(rng)
        k = rng.random()
        if k < 0.4:
            t = str(v)
            if rng.random() < 0.2 and v >= 0: t = '0' * rng.randint(1, 5) + t
            res.append(('frstr', t, v, None))
        elif k < 0.85:
            r = rng.randint(2, 36)
            t = ('-' if v < 0 else '') + '%dr%s' % (r, torad(abs(v), r))
            res.append((rng.choice(['frstr', 'rscan']), t, v, len(t)))
        else:
            t = str(abs(v))
            res.append(('scan', t, abs(v), len(t)))
    return res

def main():
    ctx = Ctx('C11', 'exploration', variants=('core', 'asan'))
    N = ctx.q(160000, 6000000)
    rng = ctx.rng
    bvals = boundary_values()
    bins = {'plain': harness(ctx, 'bigint_h', 'plain'), 'asan': harness(ctx, 'bigint_h', 'asan')}
    # 1. exhaustive-ish boundary product for the core binary ops (all sign combinations are in bvals)
    core = []
    bsmall = [v for v in bvals if abs(v).bit_length() in (0, 1, 2, 31, 32, 33, 61, 62, 63, 64, 65, 127, 128, 200) or abs(v) < 4]
    sel = bsmall if ctx.tier == 'quick' else bvals[::3]
    pairs = [(a, b) for a in sel for b in sel]
    if ctx.tier == 'quick': pairs = rng.sample(pairs, min(len(pairs), 30000))
    else: pairs = rng.sample(pairs, min(len(pairs), 400000))
    for a, b in pairs:
        op = rng.choice(['add', 'sub', 'mul', 'div', 'firem', 'figcd', 'lt', 'mod'])
        if op in ('div', 'firem', 'mod') and b == 0: continue
        core.append((op, a, b, 0, None))
    cases = core + gen_cases(rng, N, bvals)
    scases = string_cases(rng, N // 8, bvals)
    rcases = rpn_cases(rng, N // 4, bvals)
    scases += [('rpn', ' '.join(t), rpn_eval(t), None) for t in rcases]
    ctx.log('cases: %d arithmetic, %d string, %d composed' % (len(cases), len(scases), len(rcases)))
    chunks = NCPU * 2
    def run_part(variant, part, spart):
        """run one batch; returns (bad, nchecked, index of faulting case or None)"""
        text = '\n'.join([line_of(c) for c in part] + ['%s %s' % (k, t) for k, t, _, _ in spart]) + '\n'
        p = run([bins[variant]], stdin=text.encode(), timeout=1800, env=ASAN_ENV, limit=1 << 30)
        bad = []
        lines = p.out.decode(errors='replace').split('\n')
        ft = fault_text(p)
        faulted = None
        if p.rc != 0 or ft or p.timeout:
            faulted = len(lines) - 1
            allc = part + spart
            at = allc[faulted] if faulted < len(allc) else None
            sig = san_signature(p)
            bad.append(('fault', variant, at, '%s %s %s' % (p.cause, ft, sig), (p.err[-3000:]).decode(errors='replace')))
            lines = lines[:faulted]
        nchk = 0
        for c, got in zip(part, lines):
            op, a, b, n, cc = c
            e = expect(op, a, b, n, cc)
            if e is None: continue
            nchk += 1
            if isinstance(e, tuple):
                _, ref, m = e
                try: g = un(got)
                except ValueError: bad.append(('mismatch', variant, c, got, 'congruent to %d mod %d' % (ref, m))); continue
                if (g - ref) % m != 0 or abs(g) >= m: bad.append(('mismatch', variant, c, got, 'congruent to %s mod %s, |r|<m' % (hx(ref), hx(m))))
            elif got != e:
                bad.append(('mismatch', variant, c, got, e))
        for (k, t, v, end), got in zip(spart, lines[len(part):]):
            nchk += 1
            e = v if k == 'rpn' else hx(v) if k == 'frstr' else '%s %d' % (hx(v), end)
            if got != e: bad.append(('mismatch', variant, (k, t), got, e))
        return bad, nchk, faulted
    def work(job):
        variant, idx = job
        part = [c for c in cases[idx::chunks] if expect(*c) is not None]
        spart = scases[idx::chunks]
        bad, n = [], 0
        for attempt in range(12):        # continue behind a faulting case, a bounded number of times
            b1, n1, f = run_part(variant, part, spart)
            bad += b1; n += n1
            if f is None: break
            k = f + 1
            if k >= len(part): spart = spart[k - len(part):]; part = []
            else: part = part[k:]
        return bad, n
    jobs = [(v, i) for v in ('plain', 'asan') for i in range(chunks)]
    res = pmap(work, jobs, procs=True)
    total = 0
    opseen = {}
    for c in cases: opseen[c[0]] = opseen.get(c[0], 0) + 1
    for k, t, _, _ in scases: opseen[k] = opseen.get(k, 0) + 1
    for bad, n in res:
        total += n
        for kind, variant, c, got, exp in bad:
            op = c[0] if c else '?'
            if kind == 'fault':
                key = 'fault:%s:%s' % (op, variant)
            else:
                key = 'wrong:%s' % op
                # refine the key for the ShiftRem immediate case so that other ShiftRem errors stay visible
                if op == 'shrem' and c[1] < (1 << 62) and c[3] >= 31: key = 'wrong:shrem:immediate:n>=31'
            ctx.violation(key, '%s %s: case %s got %r expected %r' % (kind, variant, str(c)[:400], str(got)[:200], str(exp)[:200]),
                          files={'case.txt': (line_of(c) if c and len(c) == 5 else str(c)) + '\n', 'got.txt': str(got), 'expected.txt': str(exp)})
    for c in cases[:3] + cases[len(core):len(core) + 4]: ctx.sample(line_of(c)[:200])
    distinct = len(set((c[0], abs(c[1]).bit_length() // 32, abs(c[2]).bit_length() // 32, c[1] < 0, c[2] < 0) for c in cases))
    ctx.assumptions += ['operands enter through bintFrPlacevS and leave through bintToPlacevS (repository code, cross-checked by the id/copy/tostr cases)',
                        'mod with a negative operand: only congruence and |r|<|b| demanded (the builtin keeps the dividend sign; libaldor builds its own non-negative mod)',
                        'powmod domain: exponent >= 0, modulus >= 2', 'ShiftRem domain: non-negative operand']
    ctx.finish(total, distinct,
               'one evaluation = one operation result compared with Python integers on one build (plain allocator build and malloc-store ASan build); distinct = (op, operand digit-lengths, signs) classes',
               extra={'ops': opseen, 'builds': ['plain', 'asan'], 'boundary_values': len(bvals)}, min_eval=N)

main_guard(main)
