#!/usr/bin/env python3
"""C06  Ill-typed programs are rejected, well-typed ones accepted.
Valid half: every program of the generated family compiles (-Fao -Fc -Ffm) with exit 0, no error line, all outputs.
Invalid half: single-fault mutants made on the abstract program from a catalogue of type/scope violations, one
planted fault each, at every eligible statement position (sampled in the quick tier); each must be rejected with
exit != 0, at least one (Error) line carrying a position inside the file, and no object or code file left behind."""
import os, sys, random, copy
sys.path.insert(0, os.path.dirname(os.path.dirname(os.path.abspath(__file__))))
from vf.core import *
from vf import routes, gen

ERR = re.compile(rb'^\[L(\d+) C(\d+)\] #\d+ \((Fatal )?Error\)', re.M)

def stmt_lists(g):
    """every statement list of the main body (top level and nested), for planting a statement"""
    res = [g.main]
    def walk(lst):
        for st in lst:
            k = st[0]
            subs = []
            if k == 'ifs': subs = [st[2], st[3]]
            elif k == 'try': subs = [st[1], st[2]] + ([st[3]] if st[3] else [])
            elif k == 'while': subs = [st[2]]
            elif k == 'forr': subs = [st[4]]
            elif k == 'forl': subs = [st[3]]
            elif k == 'forg': subs = [st[4]]
            elif k == 'block': subs = [st[1]]
            for s_ in subs:
                res.append(s_); walk(s_)
    walk(g.main)
    return res

def catalogue(g, rng):
    """list of (fault name, function producing (Gen copy, render kwargs)) applicable to this program"""
    cat = []
    mi_vars = [n for n, t in g.globals.items() if t == gen.MI]
    funcs2 = [it for it in g.top if len(it[2]) >= 2]
    funcs = list(g.top)
    def plant(text):
        def f(site):
            g2 = copy.deepcopy(g)
            lists = stmt_lists(g2)
            lst = lists[site % len(lists)]
            lst.insert(rng.randint(0, len(lst)), ('rawstmt', text))
            return g2, {}
        return f
    cat.append(('undefined-identifier', plant('pM(zqundefined%d);' % rng.randint(1, 99))))
    cat.append(('undefined-operation', plant('pM(zqnosuchop(%d));' % rng.randint(1, 9))))
    cat.append(('wrong-argument-type', plant('pM(zqap("notafunction", 3));')))
    cat.append(('wrong-argument-count', plant('pM(zqap(3));')))
    cat.append(('string-where-integer', plant('zqbadv%d: MI := "str";' % rng.randint(1, 99))))
    cat.append(('assign-to-constant', plant('zqnop := 3;')))
    cat.append(('case-on-non-union', plant('pB(("abc") case i);')))
    if funcs:
        it = rng.choice(funcs); name = it[1]; n = len(it[2])
        cat.append(('call-with-extra-argument', plant('%s(%s);' % (name, ', '.join(['1'] * (n + 2))))))
    if g.recs:
        rn = sorted(g.recs)[0]
        cat.append(('wrong-record-field', lambda site: (plant('pM(%s.zz);' % rn)(0))))     # records live at top level
    def extra(text, **kw):
        return lambda site: (copy.deepcopy(g), dict(extra_top=[text], **kw))
    cat.append(('wrong-return-type', extra('zqbadret(x: MI): MI == "str";')))
    cat.append(('duplicate-definition', extra('zqnop(): () == {};')))
    cat.append(('use-of-unimported-domain-operation', extra('zqbadop(x: MI): MI == sin(x);')))
    # defaulted parameters and keyword arguments (added after seeded change C06-unknown-keyword-arg)
    DEF = 'zqdef(n: MI, factor: MI == 10): MI == n * factor;'
    def both(stmt):
        def f(site):
            g2, kw = plant(stmt)(site)
            kw = dict(kw); kw['extra_top'] = [DEF]
            return g2, kw
        return f
    cat.append(('valid:keyword-and-default-calls', both('pM(zqdef(4)); pM(zqdef(4, 3)); pM(zqdef(4, factor == 3));')))
    cat.append(('unknown-keyword-argument', both('pM(zqdef(4, zqstep == 3));')))
    cat.append(('unknown-keyword-with-undefined-value', both('pM(zqdef(4, zqstep == zqnosuchname));')))
    cat.append(('keyword-duplicates-positional', both('pM(zqdef(4, n == 3));')))
    cat.append(('too-many-arguments-with-default', both('pM(zqdef(4, 3, 2));')))
    cat.append(('keyword-value-of-wrong-type', both('pM(zqdef(4, factor == "str"));')))
    if g.consts:
        cat.append(('missing-category-export', lambda site: (copy.deepcopy(g), dict(drop_val=True))))
        cat.append(('operation-not-in-parameter-category', lambda site: (copy.deepcopy(g), dict(box_plus=True))))
        # the required export is defined only under a condition the category does not have (seeded change C06-conditional-export-check)
        cat.append(('category-export-defined-only-conditionally', lambda site: (copy.deepcopy(g), dict(cond_val=True))))
    return cat

def main():
    ctx = Ctx('C06', 'exploration', variants=('plain',))
    b = ctx.b; rng = ctx.rng
    nvalid = ctx.q(60, 600); per = ctx.q(10, 40)
    progs = [(sd, g, text) for sd, g, text, out, cls, d in gen.programs('C06-pool', nvalid // 2)] + \
            [(sd, g, text) for sd, g, text, out, cls, d in gen.programs('C06-fresh-%d' % ctx.seed, nvalid - nvalid // 2)]
    jobs = []
    for sd, g, text in progs:
        jobs.append((sd, 'valid', text))
        r = random.Random('%s/%d' % (sd, ctx.seed))
        cat = catalogue(g, r)
        nsites = len(stmt_lists(g))
        chosen = []
        for name, f in cat:
            sites = range(nsites) if ctx.tier == 'thorough' and nsites <= 6 else [r.randrange(nsites)]
            for site in sites: chosen.append((name, f, site))
        if ctx.tier == 'quick': chosen = r.sample(chosen, min(per, len(chosen)))
        for name, f, site in chosen:
            g2, kw = f(site)
            jobs.append((sd, name, gen.Render(g2, **kw).text()))
    ctx.log('%d valid programs, %d mutants' % (len(progs), len(jobs) - len(progs)))
    base = ctx.tmp('w')
    def work(job):
        j, (sd, kind, text) = job
        d = os.path.join(base, str(j)); os.makedirs(d)
        open(os.path.join(d, 'x.as'), 'w').write(text)
        p = routes.aldor(b, ['-Fao', '-Fc', '-Ffm', 'x.as'], d, variant=('asan' if False else 'plain'), timeout=120)
        left = sorted(f for f in os.listdir(d) if f != 'x.as')
        shutil.rmtree(d, ignore_errors=True)
        return (sd, kind, text), p, left
    n = 0; tall = {}
    for (sd, kind, text), p, left in pmap(work, list(enumerate(jobs))):
        n += 1
        blob = p.out + p.err
        errs = ERR.findall(blob)
        nlines = text.count('\n') + 1
        files = {'x.as': text, 'output.txt': blob[-3000:]}
        ft = fault_text(p)
        if p.timeout: ctx.violation('hang:%s' % kind, sd, files); continue
        if ft: ctx.violation('fault:%s' % kind, '%s: %s %s' % (sd, p.cause, ft), files); continue
        if kind.startswith('valid'):
            if p.rc != 0 or b'(Error)' in blob or not all(f in left for f in ('x.ao', 'x.c', 'x.fm')):
                m = re.search(rb'\(Error\) ([^\n]{0,70})', blob)
                cl = re.sub(r"`[^']*'", "`..'", m.group(1).decode(errors='replace')) if m else 'outputs missing'
                ctx.violation('valid-program-rejected:%s' % cl, '%s: exit %s, outputs %s\n%s' % (sd, p.rc, left, blob[-400:].decode(errors='replace')), files)
            else: tall[kind + '-accepted'] = tall.get(kind + '-accepted', 0) + 1
            continue
        if p.rc == 0:
            ctx.violation('ill-typed-accepted:%s' % kind, '%s with planted %s: exit 0' % (sd, kind), files); continue
        if not errs:
            ctx.violation('rejected-without-error-line:%s' % kind, '%s with planted %s: exit %s but no (Error) line with a position' % (sd, kind, p.rc), files); continue
        if not any(1 <= int(l) <= nlines for l, c, f in errs):
            ctx.violation('error-position-outside-file:%s' % kind, '%s: positions %s, file has %d lines' % (sd, [int(e[0]) for e in errs][:5], nlines), files); continue
        outs = [f for f in left if f.endswith(('.ao', '.c', '.fm'))]
        if outs:
            ctx.violation('outputs-left-after-errors:%s' % kind, '%s with planted %s: exit %s but %s exist' % (sd, kind, p.rc, outs), files); continue
        tall[kind] = tall.get(kind, 0) + 1
    # witnesses of recorded findings (valid programs the unchanged tree refuses): re-run, reported while still refused
    kd = os.path.join(VERIF, 'known', 'C06')
    for fn in sorted(os.listdir(kd)) if os.path.isdir(kd) else []:
        if not fn.endswith('.as'): continue
        text = open(os.path.join(kd, fn)).read()
        d = ctx.tmp('known-' + fn[:-3]); open(os.path.join(d, 'x.as'), 'w').write(text)
        p = routes.aldor(b, ['-Fao', 'x.as'], d, timeout=120)
        if p.rc != 0:
            m = re.search(rb'\(Error\) ([^\n]{0,80})', p.out)
            ctx.violation('witness:' + fn[:-3], 'valid program refused: %s' % (m.group(1).decode(errors='replace') if m else p.cause), {'x.as': text})
    ctx.sample({'catalogue': sorted(k for k in tall if k != 'valid-accepted')})
    ctx.finish(n, len(tall) + len(progs), 'one evaluation = one program (valid, or valid with one planted fault) compiled with -Fao -Fc -Ffm; distinct = valid programs + fault kinds exercised',
               extra={'valid_programs': len(progs), 'mutants': n - len(progs), 'rejected_per_fault_kind': tall}, min_eval=100)

main_guard(main)
