#!/usr/bin/env python3
"""C13  Interactive evaluation equals batch evaluation.
The top-level forms of a generated program are fed one after another to `aldor -Gloop'; the marker-prefixed lines it
prints must equal, in order, those of `aldor -Ginterp file.as' (and the reference evaluator's).  With erroneous forms
interleaved, the sequence must equal that of the program without them, and each erroneous form must be reported."""
import os, sys, random, copy
sys.path.insert(0, os.path.dirname(os.path.dirname(os.path.abspath(__file__))))
from vf.core import *
from vf import routes, gen

MARK = '@@ '
BAD = ['pM(zqundefined%d);', 'zqbadv%d: MI := "str";', 'pM(zqnosuchop(%d));', 'pM(zqap(%d));', 'pB(("s%d") case i);', 'zqnop := %d;', 'pS(%d + "x" + );']

def marks(out):
    return [l[len(MARK):] for l in out.decode(errors='replace').split('\n') if l.startswith(MARK)]

def main():
    ctx = Ctx('C13', 'exploration', variants=('plain',))
    b = ctx.b
    nprog = ctx.q(150, 800); nint = ctx.q(5, 12)
    progs = []
    for tag, cnt in (('C13-pool', nprog // 2), ('C13-fresh-%d' % ctx.seed, nprog - nprog // 2)):
        for sd, g, text, out, cls, d in gen.programs(tag, cnt * 3):
            # the property is about definitions and output statements: try/catch statements are left out (recorded finding: the
            # loop refuses `try ... catch E in { ...; never }' steps that batch compilation accepts)
            if cls == 'ok' and 'exceptions' not in g.feat and len(progs) < (nprog // 2 if tag == 'C13-pool' else nprog): progs.append((sd, g, out))
    base = ctx.tmp('w')
    def work(j):
        sd, g, out = progs[j]
        r = random.Random('%s/%d' % (sd, ctx.seed))
        text = gen.Render(g, marker=MARK).text()
        d = os.path.join(base, str(j)); os.makedirs(d)
        open(os.path.join(d, 'x.as'), 'w').write(text)
        pb = routes.interp_src(b, d, 'x.as', ['-Q1'])
        res = [('batch', pb, None, 0)]
        pl = routes.aldor(b, ['-Gloop'], d, stdin=text.encode(), timeout=300)
        res.append(('loop', pl, None, 0))
        # interleavings with erroneous forms at top-level boundaries of the main part
        for k in range(nint):
            g2 = copy.deepcopy(g)
            nbad = r.randint(1, 3); pos = []
            for _ in range(nbad):
                i = r.randint(0, len(g2.main)); g2.main.insert(i, ('rawstmt', r.choice(BAD) % r.randint(1, 99))); pos.append(i)
            t2 = gen.Render(g2, marker=MARK).text()
            p = routes.aldor(b, ['-Gloop'], d, stdin=t2.encode(), timeout=300)
            res.append(('loop+%d-erroneous' % nbad, p, t2, nbad))
        shutil.rmtree(d, ignore_errors=True)
        return j, text, res
    n = 0
    for j, text, res in pmap(work, range(len(progs))):
        sd, g, out = progs[j]
        exp = out.split('\n')[:-1] if out else []
        for tag, p, t2, nbad in res:
            n += 1
            got = marks(p.out)
            files = {'x.as': t2 or text, 'case.txt': '%s %s\nexpected: %s\ngot: %s\n%s' % (sd, tag, exp[:40], got[:40], p.out[-2500:].decode(errors='replace'))}
            kind = tag.split('+')[0] + ('+erroneous' if nbad else '')
            if p.timeout: ctx.violation('hang:%s' % kind, '%s %s' % (sd, tag), files); continue
            ft = fault_text(p)
            if ft or p.sig: ctx.violation('fault:%s' % kind, '%s %s: %s %s' % (sd, tag, p.cause, ft), files); continue
            if got != exp:
                ctx.violation('output-differs:%s' % kind, '%s %s: expected %d marker lines %s..., got %d %s...' % (sd, tag, len(exp), exp[:5], len(got), got[:5]), files); continue
            if nbad:
                nerr = len(re.findall(rb'\((Fatal )?Error\)', p.out))
                if nerr < nbad: ctx.violation('erroneous-form-not-reported', '%s %s: %d erroneous forms, %d error lines' % (sd, tag, nbad, nerr), files)
    # witness of the recorded finding: a try/catch step
    W = '#include "aldor"\n#include "aldorio"\nimport from MachineInteger, String;\ndefine ZqExc: Category == with;\nZqE1: ZqExc == add;\n' + \
        'try { stdout << "@@ in" << newline; throw ZqE1 } catch E in { E has ZqExc => { stdout << "@@ caught" << newline }; never } finally { stdout << "@@ fin" << newline };\nstdout << "@@ after" << newline;\n'
    d = ctx.tmp('witness'); pw = routes.aldor(b, ['-Gloop'], d, stdin=W.encode(), timeout=120)
    if marks(pw.out) != ['in', 'caught', 'fin', 'after']:
        ctx.violation('witness:try-catch-step-refused', 'a try/catch/finally step: got marker lines %s' % marks(pw.out), {'session.txt': W, 'output.txt': pw.out[-2000:]})
    # regression sessions: inputs that once broke the loop (fixed in the repository); each prints its expected lines
    for name, want in (('or-operand-import.gloop', ['3']),):
        W2 = open(os.path.join(VERIF, 'known', 'C13', name)).read()
        d = ctx.tmp('reg'); p2 = routes.aldor(b, ['-Gloop'], d, stdin=W2.encode(), timeout=120); n += 1
        got2 = [l.strip() for l in p2.out.decode(errors='replace').split('\n') if l.strip() in want]
        if fault_text(p2) or p2.sig or got2 != want:
            ctx.violation('fault:loop', 'regression session %s: %s %s, output lines %s' % (name, p2.cause, fault_text(p2), got2), {'session.txt': W2, 'output.txt': p2.out[-2000:]})
    ctx.sample({'program': progs[0][0], 'erroneous_forms': BAD[:4]})
    ctx.assumptions += ['only programs that end normally are used (an uncaught exception stops a batch run but not a session)', 'erroneous forms are inserted between top-level statements of the main part']
    ctx.finish(n, len(progs), 'one evaluation = one session (or batch run) whose marker lines are compared with the reference evaluator\'s output; distinct = programs',
               extra={'programs': len(progs), 'interleavings_per_program': nint}, min_eval=50)

main_guard(main)
