#!/usr/bin/env python3
"""C10  The storage manager never hands out or reclaims live memory.
Histories (exhaustive short ones and long random ones) are replayed by harness/store_h.c on the real
B-tree allocator and collector, with a shadow heap, pattern checks, reachability model and stoAudit."""
import os, sys, itertools, random
sys.path.insert(0, os.path.dirname(os.path.dirname(os.path.abspath(__file__))))
from vf.core import *

FIXED = [8, 16, 24, 32, 48, 64, 80, 96, 128, 160, 192, 256]
PG = 4096

def size_pool():
    s = list(range(1, 1101))
    for m in range(1, 41):
        for d in range(-40, 41, 1 if m <= 4 else 8):
            v = m * PG + d
            if v > 0: s.append(v)
    return s

def rand_history(rng, steps, demand):
    """phases: grow, churn, shrink, fragment, collect-heavy"""
    pool = size_pool()
    out = ['demand'] if demand else []
    live = {}       # slot -> size
    free_slots = list(range(600)); rng.shuffle(free_slots)
    maxlive = rng.choice([20, 120, 500])
    bigp = rng.choice([0.01, 0.05, 0.2, 0.45])
    def size():
        r = rng.random()
        if r < 0.5: return rng.randint(1, 300)
        if r < 0.5 + bigp: return rng.choice(pool[1100:])
        if r < 0.8: return rng.choice(FIXED) + rng.choice([-1, 0, 1])
        return rng.choice(pool[:1100])
    phase = 'grow'; left = 0
    for st in range(steps):
        if left <= 0:
            phase = rng.choice(['grow', 'churn', 'shrink', 'fragment', 'collect'])
            left = rng.randint(20, 400)
        left -= 1
        pa = {'grow': 0.7, 'churn': 0.45, 'shrink': 0.15, 'fragment': 0.4, 'collect': 0.4}[phase]
        r = rng.random()
        if (r < pa and len(live) < maxlive and free_slots) or not live:
            s = free_slots.pop(); n = size(); code = rng.choice([0, 0, 0, 1, 5, 21, 30])
            live[s] = n; out.append('a %d %d %d' % (s, n, code))
            if demand and rng.random() < 0.75: out.append('root %d %d' % (s, rng.randrange(n) if (n > 256 and rng.random() < 0.7) else rng.choice([0, 0, rng.randrange(n)])))
            continue
        s = rng.choice(list(live))
        r = rng.random()
        if phase == 'fragment' and r < 0.5:
            # free every other block of a run, to make holes
            for t in sorted(live)[::2][:rng.randint(1, 20)]:
                out.append('f %d' % t); del live[t]; free_slots.insert(0, t)
        elif r < 0.35:
            out.append('f %d' % s); del live[s]; free_slots.insert(0, s)
        elif r < 0.6:
            n = size() if rng.random() < 0.6 else max(1, live[s] + rng.choice([-300, -9, -8, -1, 1, 7, 8, 9, 255, 256, 257, 4096]))
            live[s] = n; out.append('r %d %d' % (s, n))
        elif r < 0.66:
            out.append('c %d %d' % (s, rng.choice([0, 1, 5, 21, 30])))
        elif r < 0.74:
            t = rng.choice(list(live)); out.append('link %d %d %d' % (s, t, rng.choice([0, 0, rng.randrange(live[t])])))
        elif r < 0.77:
            out.append('unlink %d' % s)
        elif r < 0.83:
            out.append('root %d %d' % (s, rng.choice([0, 0, rng.randrange(live[s]), live[s] - 1])))
        elif r < 0.88:
            out.append('unroot %d' % s)
        elif r < (0.99 if phase == 'collect' else 0.91):
            out.append('g')
            if demand:
                # the generator does not know which blocks survive; slots it frees later may already be forgotten (harness ignores those)
                pass
    out.append('g'); out.append('end')
    return out

ALPHA = [1, 8, 24, 256, 257, 5000]
INTERIOR = {5000: 2400, 257: 200, 256: 255, 24: 17, 8: 7, 1: 0}

def short_histories(length):
    """every history of `length` ops over: alloc+root of 6 sizes, free oldest, free newest, resize newest to 6 sizes,
    unroot newest, link newest->oldest, gc.  Demand mode, so unreachable blocks are collected only at gc steps."""
    ops = [('A', z) for z in ALPHA] + [('FO', 0), ('FN', 0)] + [('R', z) for z in ALPHA] + [('U', 0), ('L', 0), ('I', 0), ('G', 0)]
    for seq in itertools.product(ops, repeat=length):
        if seq[0][0] != 'A': continue
        yield seq

def render_short(seq):
    out = ['demand']; live = []; nxt = 0; size = {}
    for op, z in seq:
        if op == 'A':
            out.append('a %d %d 0' % (nxt, z)); out.append('root %d 0' % nxt); live.append(nxt); size[nxt] = z; nxt += 1
        elif op == 'FO' and live: out.append('f %d' % live.pop(0))
        elif op == 'FN' and live: out.append('f %d' % live.pop())
        elif op == 'R' and live: out.append('r %d %d' % (live[-1], z)); size[live[-1]] = z
        elif op == 'U' and live: out.append('unroot %d' % live[-1])
        elif op == 'I' and live: out.append('root %d %d' % (live[-1], INTERIOR[size[live[-1]]]))     # only an interior pointer keeps it
        elif op == 'L' and len(live) > 1: out.append('unroot %d' % live[0]); out.append('link %d %d %d' % (live[-1], live[0], INTERIOR[size[live[0]]]))
        elif op == 'G': out.append('g')
    out.append('g'); out.append('end')
    return '\n'.join(out) + '\n'

def main():
    ctx = Ctx('C10', 'exploration', variants=('core',))
    rng = ctx.rng
    sh = harness(ctx, 'store_h', 'plain')
    viol_seen = 0
    # ---------------- 1. exhaustive short histories, forked child per history
    L = ctx.q(4, 5)
    hs = list(short_histories(L))
    if ctx.tier == 'quick' and len(hs) > 30000:
        # all of length 3 plus a seed-chosen slice of length 4
        hs = list(short_histories(3)) + [h for i, h in enumerate(hs) if (i + ctx.seed) % 4 == 0]
    ctx.log('short histories: %d (length %d)' % (len(hs), L))
    chunks = NCPU * 4
    def swork(ci):
        part = hs[ci::chunks]
        text = '=\n'.join(render_short(h) for h in part)
        p = run([sh, '-m', '-a', '1', '-v', '1'], stdin=text.encode(), timeout=3600, limit=1 << 30)
        lines = [l for l in p.out.decode(errors='replace').split('\n') if l]
        bad = []
        okc = 0; gcs = 0
        for l in lines:
            m = re.match(r'H(\d+) (.*)', l)
            if not m: continue
            if m.group(2).startswith('OK'):
                okc += 1
                g = re.search(r'gcs=(\d+)', l); gcs += int(g.group(1)) if g else 0
            else:
                bad.append((part[int(m.group(1))], m.group(2)))
        if p.rc != 0 or p.timeout: bad.append((None, 'driver %s %s' % (p.cause, p.err[-300:].decode(errors='replace'))))
        seen = set(int(m.group(1)) for m in (re.match(r'H(\d+) ', l) for l in lines) if m)
        for i in range(len(part)):
            if i not in seen: bad.append((part[i], 'no result (child died without report)'))
        return bad, okc, gcs
    nshort = 0; sgcs = 0
    for bad, okc, gcs in pmap(swork, range(chunks)):
        nshort += okc; sgcs += gcs
        for h, msg in bad:
            kind = re.sub(r'step=.*', '', msg).strip().replace('VIOLATION ', '')
            ctx.violation('short:%s' % kind, 'history %s: %s' % (h, msg), files={'history.txt': render_short(h) if h else ''})
    ctx.sample({'short_history': render_short(hs[len(hs) // 2]).split('\n')})
    # ---------------- 2. long random histories
    nr = ctx.q(48, 400); steps = ctx.q(5000, 100000)
    jobs = [(i, rng.getrandbits(48)) for i in range(nr)]
    def rwork(job):
        i, sd = job
        r = random.Random(sd)
        demand = (i % 3 != 0)
        st = steps if (ctx.tier == 'quick' or i < 48) else 8000
        h = rand_history(r, st, demand)
        env = {}
        if not demand:
            # make the heap-growth-triggered collector run often
            env = {'GC_GEFN': '1', 'GC_GEFD': '1', 'GC_GGFN': r.choice(['1', '11']), 'GC_GGFD': r.choice(['1', '10'])}
        a = '1' if st <= 6000 else '16'
        p = run([sh, '-a', a, '-v', '64'], stdin=('\n'.join(h) + '\n').encode(), timeout=3600, env=env)
        return job, demand, h, p
    nlong = 0; lgcs = 0; lallocs = 0; msteps = 0
    for (i, sd), demand, h, p in pmap(rwork, jobs):
        out = p.out.decode(errors='replace')
        m = re.search(r'OK steps=(\d+) allocs=(\d+) gcs=(\d+) maxlive=(\d+)', out)
        if m and p.rc == 0:
            nlong += 1; msteps += int(m.group(1)); lallocs += int(m.group(2)); lgcs += int(m.group(3))
            continue
        vm = re.search(r'VIOLATION (\S+) step=(\d+)(.*)', out)
        ft = fault_text(p)
        if vm: key = 'long:%s' % vm.group(1); what = vm.group(0)
        else: key = 'long:fault:%s' % (ft or p.cause); what = '%s %s' % (p.cause, (p.err[-600:] + p.out[-300:]).decode(errors='replace'))
        cut = int(vm.group(2)) + 2 if vm else len(h)
        ctx.violation(key, '%s mode, seed %d: %s' % ('demand' if demand else 'automatic', sd, what), files={'history.txt': '\n'.join(h[:cut] + ['end']) + '\n'})
    # ---------------- 3. long chains live across collections (marking depth; added after seeded change C09-mark-tail-recursion)
    nchain = 0
    def cwork(job):
        n, sz, lastword, demand = job
        h = (['demand'] if demand else []) + ['a 0 64 2', 'root 0 0', 'chain %d %d %d' % (n, sz, lastword)]
        for k in range(1, 40): h += ['a %d %d 2' % (k, 16 + 8 * (k % 9))]          # garbage around it
        h += ['g', 'chaincheck', 'a 41 4000 2', 'g', 'chaincheck', 'chaindrop', 'g', 'end']
        p = run([sh, '-a', '0', '-v', '0'], stdin=('\n'.join(h) + '\n').encode(), timeout=1800)
        return job, h, p
    def combwork(job):
        w, dep, demand = job
        h = (['demand'] if demand else []) + ['a 0 64 2', 'root 0 0', 'comb %d %d' % (w, dep)]
        for k in range(1, 30): h += ['a %d %d 2' % (k, 16 + 8 * (k % 9))]
        h += ['g', 'combcheck', 'a 41 4000 2', 'g', 'combcheck', 'combdrop', 'g', 'end']
        p = run([sh, '-a', '0', '-v', '0'], stdin=('\n'.join(h) + '\n').encode(), timeout=1800)
        return ('comb',) + job, h, p
    combjobs = [(w, dep, dm) for w, dep in ((ctx.q(3000, 34000), 600), (500, 3000)) for dm in (True, False)]
    cjobs = [(n, sz, lw, dm) for n in (ctx.q(300000, 1500000), 90000) for sz, lw in ((24, 1), (40, 1), (24, 0)) for dm in (True, False)]
    for job, h, p in pmap(cwork, cjobs) + pmap(combwork, combjobs):
        out = p.out.decode(errors='replace')
        if re.search(r'OK steps=', out) and p.rc == 0: nchain += 1; continue
        if job[0] == 'comb':
            vm = re.search(r'VIOLATION (\S+) step=(\d+)(.*)', out)
            ctx.violation('comb:%s' % (vm.group(1) if vm else 'fault:%s' % (fault_text(p) or p.cause)), 'comb of %d chains of %d blocks, %s collector: %s' % (job[1], job[2], 'demand' if job[3] else 'automatic', vm.group(0) if vm else p.cause + ' ' + p.err[-300:].decode(errors='replace')), files={'history.txt': '\n'.join(h) + '\n'})
            continue
        vm = re.search(r'VIOLATION (\S+) step=(\d+)(.*)', out)
        key = ('chain:%s' % vm.group(1) if vm else 'chain:fault:%s' % (fault_text(p) or p.cause)) + (':link-in-last-word' if job[2] else ':link-in-first-word')
        ctx.violation(key, 'chain of %d blocks of %d bytes linked through the %s word, %s collector: %s' % (job[0], job[1], 'last' if job[2] else 'first', 'demand' if job[3] else 'automatic', vm.group(0) if vm else p.cause + ' ' + (p.err[-300:]).decode(errors='replace')), files={'history.txt': '\n'.join(h) + '\n'})
    ctx.sample({'random_history_head': rand_history(random.Random(1), 30, True)[:20]})
    ctx.assumptions += ['nothing is asserted about blocks the reachability model finds unreachable after a collection (the collector is conservative)',
                        'conservation is checked as an interval: shadow live bytes <= alloc-free-gc <= live + bytes of forgotten blocks',
                        'ASan cannot observe this allocator (heap from the OS, conservative stack scan); the monitor is the shadow heap plus stoAudit with washing on']
    inconc = None
    if sgcs + lgcs == 0: inconc = 'no collection ever ran'
    ctx.finish(nshort + nlong + nchain, nshort + nlong + nchain,
               'one evaluation = one complete history replayed with per-step checks (alignment, size, overlap, contents, resize prefix, reachable-survives-gc, stoAudit, conservation); short histories enumerated exhaustively, long ones random with phases; every history is distinct',
               extra={'short_histories': nshort, 'short_length': L, 'short_exhaustive': ctx.tier == 'thorough' or L == 3, 'long_histories': nlong, 'chain_histories': nchain, 'long_steps_total': msteps,
                      'allocations': lallocs, 'collections_short': sgcs, 'collections_long': lgcs, 'size_pool': len(size_pool())},
               inconclusive=inconc, min_eval=100)

main_guard(main)
