#!/usr/bin/env python3
"""C09  Garbage collection never changes what a program computes.
The same executable (and the same .ao interpreted) is run under collection schedules: none forced, demand collector made
eager through the heap-growth knobs, and collections forced by the allocator hook at every k-th allocation with offset j
(whole run for executables, windows for the interpreter), freed storage poisoned.  Output and exit class must equal the
unforced run, and no run may end in a storage fault."""
import os, sys, random
sys.path.insert(0, os.path.dirname(os.path.dirname(os.path.abspath(__file__))))
from vf.core import *
from vf import routes, progset

def main():
    ctx = Ctx('C09', 'exploration', variants=('plain',))
    b = ctx.b
    progs, disc = progset.pool(b, ctx, ctx.q(14, 120), ctx.q(10, 150), ctx.q(12, 200), 'C09')
    LEVELS = ['-Q0', '-Q2', '-Q9'] if ctx.tier == 'thorough' else ['-Q1', '-Q2']
    base = ctx.tmp('w')
    def work(j):
        pr = progs[j]
        r = random.Random('%s/%d' % (pr['name'], ctx.seed))
        lv = LEVELS[j % len(LEVELS)]
        d = os.path.join(base, str(j)); progset.place(d, pr)
        pc, g, exe = routes.compile_c(b, d, 'x.as', [lv] + progset.inc(pr), lib=pr['lib'], timeout=120)
        pa = routes.compile_ao(b, d, 'x.as', [lv] + progset.inc(pr), lib=pr['lib'], timeout=120)
        res = []
        if not exe or pa.rc != 0: shutil.rmtree(d, ignore_errors=True); return j, lv, res
        def runx(route, env, timeout):
            log = os.path.join(d, 'gc-%d.log' % len(res))
            e = dict(env); e['ALDOR_VERIF_GC_LOG'] = log
            if route == 'exe': p = routes.run_exe(exe, d, env=e, timeout=timeout); out = p.out
            else: p = routes.interp_ao(b, d, 'x.ao', lib=pr['lib'], env=e, timeout=timeout); out = routes.norm_out(p, True)
            st = {'allocs': 0, 'forced': 0, 'gcbytes': 0}
            try:
                for k, v in re.findall(r'(\w+)=(\d+)', open(log).read().split('\n')[0]): st[k] = int(v)
            except Exception: pass
            return p, out, st
        for route in ('exe', 'interp'):
            p0, o0, s0 = runx(route, {}, 60)
            if p0.timeout: continue
            na = s0['allocs']
            scheds = [('natural', {'GC_GEFN': '1', 'GC_GEFD': '1', 'GC_GGFN': '11', 'GC_GGFD': '10'})]
            nk = ctx.q(5, 24)
            for _ in range(nk):
                if route == 'exe':
                    k = r.choice([1, 1, 2, 3, 5, 7, 11, 16, 50, 100, 333, 1000]); jj = r.randrange(k)
                    if na > 400000 and k < 5: k = r.choice([50, 100, 333])
                    scheds.append(('k=%d j=%d' % (k, jj), {'ALDOR_VERIF_GC': '%d:%d' % (k, jj)}))
                else:
                    if r.random() < 0.6 and na > 0:
                        k = r.choice([1, 2, 3, 7]); width = r.choice([300, 1000])
                        lo = r.randrange(max(1, na - width)); scheds.append(('k=%d window %d+%d' % (k, lo, width), {'ALDOR_VERIF_GC': '%d:%d:%d:%d' % (k, r.randrange(k), lo, lo + width)}))
                    else:
                        k = max(100, na // r.choice([200, 600])); scheds.append(('k=%d' % k, {'ALDOR_VERIF_GC': '%d:%d' % (k, r.randrange(k))}))
            for tag, env in scheds:
                p, o, st = runx(route, env, 600)
                res.append((route, tag, p0, o0, p, o, st))
        shutil.rmtree(d, ignore_errors=True)
        return j, lv, res
    n = 0; forced = 0; natural_gcs = 0; per = {}
    for j, lv, res in pmap(work, range(len(progs))):
        pr = progs[j]
        for route, tag, p0, o0, p, o, st in res:
            n += 1; forced += st['forced']
            if tag == 'natural' and st['gcbytes'] > 0: natural_gcs += 1
            per[route] = per.get(route, 0) + 1
            files = {'x.as': pr['text'], 'case.txt': '%s %s route %s schedule %s\nunforced: %s\nforced: %s\n--- unforced output\n%s\n--- forced output\n%s\n%s' % (
                pr['name'], lv, route, tag, p0.cause, p.cause, o0[-1500:].decode(errors='replace'), o[-1500:].decode(errors='replace'), p.err[-800:].decode(errors='replace'))}
            cls = ('natural' if tag == 'natural' else 'forced') + ':' + (pr['name'] if pr['name'].startswith('corpus:') else 'generated')
            if p.timeout: ctx.violation('hang:%s:%s' % (route, cls), '%s %s %s' % (pr['name'], lv, tag), files); continue
            f0 = p0.xclass == 'signal' or bool(fault_text(p0) and 'Unhandled' not in fault_text(p0))
            f1 = p.xclass == 'signal' or bool(fault_text(p) and 'Unhandled' not in fault_text(p))
            if f1 and not f0:
                ctx.violation('storage-fault:%s:%s' % (route, cls), '%s %s under %s: %s %s' % (pr['name'], lv, tag, p.cause, fault_text(p)), files); continue
            if f0: continue
            if o != o0 or (p.rc == 0) != (p0.rc == 0):
                ctx.violation('result-changed:%s:%s' % (route, cls), '%s %s under %s: output or exit class differs from the unforced run' % (pr['name'], lv, tag), files)
    ctx.sample({'program': progs[0]['name'], 'schedule': 'ALDOR_VERIF_GC=3:1 (collect at allocations 1,4,7,...)'})
    inconc = None
    if forced < 100: inconc = 'fewer than 100 collections were forced'
    ctx.finish(n, len(progs), 'one evaluation = one run of an executable / interpreted .ao under one collection schedule compared with its unforced run; distinct = programs',
               extra={'programs': len(progs), 'runs_per_route': per, 'forced_collections_total': forced, 'natural_runs_that_collected': natural_gcs, 'levels': LEVELS}, inconclusive=inconc, min_eval=50)

main_guard(main)
