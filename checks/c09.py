#!/usr/bin/env python3
"""C09  Garbage collection never changes what a program computes.
The same executable (and the same .ao interpreted) is run under collection schedules: none forced, demand collector made
eager through the heap-growth knobs, and collections forced by the allocator hook at every k-th allocation with offset j
(whole run for executables, windows for the interpreter), freed storage poisoned.  Output and exit class must equal the
unforced run, and no run may end in a storage fault."""
import os, sys, random
sys.path.insert(0, os.path.dirname(os.path.dirname(os.path.abspath(__file__))))
from vf.core import *
from vf import routes, progset

# ---- heap shapes the program pools do not contain (added after seeded change C09-mark-tail-recursion, which only shows when a
# ---- collection runs while a chain of more than ~75 000 cells linked through their last word is live).  The expected output
# ---- is computed here, so these programs are also checked against their definition, not only against the unforced run.
HEAD = '#include "aldor"\n#include "aldorio"\nmacro MI == MachineInteger;\nimport from MI, List MI, List List MI, Array MI, Array List MI;\n'
def shape_longlist(N):
    text = HEAD + """keep: List MI := empty;
i: MI := %d;
while i > 0 repeat { keep := cons(i rem 9973, keep); i := i - 1; }
junk: MI := 0;
for r in 1..120 repeat {
	t: List MI := empty;
	for k in 1..2000 repeat t := cons(k + r, t);
	junk := (junk + first t) rem 1000003;
}
s: MI := 0; n: MI := 0;
for x in keep repeat { s := (3 * s + x) rem 1000003; n := n + 1; }
stdout << n << " " << junk << " " << s << newline;
""" % N
    junk = 0
    for r in range(1, 121): junk = (junk + 2000 + r) % 1000003
    s_ = 0
    for i in range(1, N + 1): s_ = (3 * s_ + i % 9973) % 1000003
    return {'name': 'shape:longlist-%d' % N, 'lib': 'aldor', 'text': text, 'inc': None, 'expected': ('%d %d %d\n' % (N, junk, s_), 'ok'), 'g': None, 'shape': True}
def shape_listoflists(R, C):
    text = HEAD + """ll: List List MI := empty;
for r in 1..%d repeat {
	t: List MI := empty;
	for k in 1..%d repeat t := cons((k * r) rem 1009, t);
	ll := cons(t, ll);
	g: List MI := [j for j in 1..50];
}
s: MI := 0;
for l in ll repeat for x in l repeat s := (s + x) rem 1000003;
stdout << #ll << " " << s << newline;
""" % (R, C)
    s_ = 0
    for r in range(1, R + 1):
        for k in range(1, C + 1): s_ = (s_ + (k * r) % 1009) % 1000003
    return {'name': 'shape:listoflists-%dx%d' % (R, C), 'lib': 'aldor', 'text': text, 'inc': None, 'expected': ('%d %d\n' % (R, s_), 'ok'), 'g': None, 'shape': True}
def shape_arrayoflists(N):
    text = HEAD + """a: Array List MI := new(%d, empty);
for i in 0..%d repeat { a.i := [i, i + 1, i rem 7]; }
for r in 1..40000 repeat { t: List MI := [r, r, r]; }
s: MI := 0;
for i in 0..%d repeat for x in a.i repeat s := (s + x) rem 1000003;
stdout << #a << " " << s << newline;
""" % (N, N - 1, N - 1)
    s_ = 0
    for i in range(N): s_ = (s_ + i + i + 1 + i % 7) % 1000003
    return {'name': 'shape:arrayoflists-%d' % N, 'lib': 'aldor', 'text': text, 'inc': None, 'expected': ('%d %d\n' % (N, s_), 'ok'), 'g': None, 'shape': True}

def shape_recordchain(N):
    """a chain linked through the FIRST field of its records (recorded finding: the collector marks recursively and only the last
    word of a block is followed without recursion, so such a chain of more than ~75 000 nodes overflows the C stack)"""
    text = HEAD.replace('import from MI,', 'import from Pointer, MI,') + """R ==> Record(nxt: Pointer, v: MI);
import from R;
head: R := [nil, 0];
for i in 1..%d repeat head := [head pretend Pointer, i];
junk: MI := 0;
for r in 1..200 repeat {
	t: List MI := empty;
	for k in 1..2000 repeat t := cons(k + r, t);
	junk := (junk + first t) rem 1000003;
}
n: MI := 0; s: MI := 0;
p: R := head;
while not nil?(p.nxt) repeat { n := n + 1; s := (s + p.v) rem 1000003; p := (p.nxt) pretend R; }
stdout << n << " " << s << newline;
""" % N
    return {'name': 'shape:recordchain-first-field-%d' % N, 'lib': 'aldor', 'text': text, 'inc': None, 'expected': ('%d %d\n' % (N, (N * (N + 1) // 2) % 1000003), 'ok'), 'g': None, 'shape': True}

def main():
    ctx = Ctx('C09', 'exploration', variants=('plain',))
    b = ctx.b
    progs, disc = progset.pool(b, ctx, ctx.q(14, 120), ctx.q(10, 150), ctx.q(12, 200), 'C09')
    progs = progs + [shape_longlist(ctx.q(300000, 1000000)), shape_listoflists(ctx.q(2000, 6000), 100), shape_arrayoflists(ctx.q(60000, 200000)), shape_recordchain(300000)]
    LEVELS = ['-Q0', '-Q2', '-Q9'] if ctx.tier == 'thorough' else ['-Q1', '-Q2']
    base = ctx.tmp('w')
    def work(j):
        pr = progs[j]
        r = random.Random('%s/%d' % (pr['name'], ctx.seed))
        lv = LEVELS[j % len(LEVELS)]
        d = os.path.join(base, str(j)); progset.place(d, pr)
        pc, g, exe = routes.compile_c(b, d, 'x.as', [lv] + progset.inc(pr), lib=pr['lib'], timeout=120)
        pa = routes.compile_ao(b, d, 'x.as', [lv] + progset.inc(pr), lib=pr['lib'], timeout=120)
        res = []
        if not exe or pa.rc != 0: shutil.rmtree(d, ignore_errors=True); return j, lv, res
        def runx(route, env, timeout):
            log = os.path.join(d, 'gc-%d.log' % len(res))
            e = dict(env); e['ALDOR_VERIF_GC_LOG'] = log
            if route == 'exe': p = routes.run_exe(exe, d, env=e, timeout=timeout); out = p.out
            else: p = routes.interp_ao(b, d, 'x.ao', lib=pr['lib'], env=e, timeout=timeout); out = routes.norm_out(p, True)
            st = {'allocs': 0, 'forced': 0, 'gcbytes': 0}
            try:
                for k, v in re.findall(r'(\w+)=(\d+)', open(log).read().split('\n')[0]): st[k] = int(v)
            except Exception: pass
            return p, out, st
        for route in ('exe', 'interp'):
            p0, o0, s0 = runx(route, {}, 60)
            if p0.timeout: continue
            na = s0['allocs']
            scheds = [('natural', {'GC_GEFN': '1', 'GC_GEFD': '1', 'GC_GGFN': '11', 'GC_GGFD': '10'})]
            nk = ctx.q(5, 24)
            if pr.get('shape'):      # few collections, each with the whole structure live
                nk = 0
                for div in (7, 23): scheds.append(('k=%d' % max(1000, na // div), {'ALDOR_VERIF_GC': '%d:%d' % (max(1000, na // div), 17)}))
            for _ in range(nk):
                if route == 'exe':
                    k = r.choice([1, 1, 2, 3, 5, 7, 11, 16, 50, 100, 333, 1000]); jj = r.randrange(k)
                    if na > 400000 and k < 5: k = r.choice([50, 100, 333])
                    scheds.append(('k=%d j=%d' % (k, jj), {'ALDOR_VERIF_GC': '%d:%d' % (k, jj)}))
                else:
                    if r.random() < 0.6 and na > 0:
                        k = r.choice([1, 2, 3, 7]); width = r.choice([300, 1000])
                        lo = r.randrange(max(1, na - width)); scheds.append(('k=%d window %d+%d' % (k, lo, width), {'ALDOR_VERIF_GC': '%d:%d:%d:%d' % (k, r.randrange(k), lo, lo + width)}))
                    else:
                        k = max(100, na // r.choice([200, 600])); scheds.append(('k=%d' % k, {'ALDOR_VERIF_GC': '%d:%d' % (k, r.randrange(k))}))
            for tag, env in scheds:
                p, o, st = runx(route, env, 600)
                res.append((route, tag, p0, o0, p, o, st))
        shutil.rmtree(d, ignore_errors=True)
        return j, lv, res
    n = 0; forced = 0; natural_gcs = 0; per = {}; shp = {}
    for j, lv, res in pmap(work, range(len(progs))):
        pr = progs[j]
        for route, tag, p0, o0, p, o, st in res:
            n += 1; forced += st['forced']
            if pr.get('shape'): shp.setdefault(pr['name'], []).append('%s %s: %d allocations, %d forced collections, %s' % (route, tag, st['allocs'], st['forced'], p.cause))
            if tag == 'natural' and st['gcbytes'] > 0: natural_gcs += 1
            per[route] = per.get(route, 0) + 1
            files = {'x.as': pr['text'], 'case.txt': '%s %s route %s schedule %s\nunforced: %s\nforced: %s\n--- unforced output\n%s\n--- forced output\n%s\n%s' % (
                pr['name'], lv, route, tag, p0.cause, p.cause, o0[-1500:].decode(errors='replace'), o[-1500:].decode(errors='replace'), p.err[-800:].decode(errors='replace'))}
            cls = ('natural' if tag == 'natural' else 'forced') + ':' + (pr['name'] if pr['name'].startswith('corpus:') else 'shape' if pr.get('shape') else 'generated')
            if p.timeout: ctx.violation('hang:%s:%s' % (route, cls), '%s %s %s' % (pr['name'], lv, tag), files); continue
            f0 = p0.xclass == 'signal' or bool(fault_text(p0) and 'Unhandled' not in fault_text(p0))
            f1 = p.xclass == 'signal' or bool(fault_text(p) and 'Unhandled' not in fault_text(p))
            if f1 and not f0:
                ctx.violation('storage-fault:%s:%s' % (route, cls), '%s %s under %s: %s %s' % (pr['name'], lv, tag, p.cause, fault_text(p)), files); continue
            if f0 and pr.get('shape'):
                if tag == 'natural': ctx.violation('shape-program-faults:%s:%s' % (route, pr['name']), '%s %s: the unforced run ends in %s %s' % (pr['name'], lv, p0.cause, fault_text(p0)), files)
                continue
            if f0: continue
            if pr.get('shape') and (o0.decode(errors='replace') != pr['expected'][0]):
                ctx.violation('shape-program-wrong:%s' % route, '%s %s: unforced run prints %r, definition gives %r' % (pr['name'], lv, o0[-100:], pr['expected'][0]), files); continue
            if o != o0 or (p.rc == 0) != (p0.rc == 0):
                ctx.violation('result-changed:%s:%s' % (route, cls), '%s %s under %s: output or exit class differs from the unforced run' % (pr['name'], lv, tag), files)
    # ---------------- interactive sessions: `#int gc' between steps (added after seeded change C09-loop-gc-dangling-stack)
    # The same session with and without collections requested at step boundaries must print the same marked lines; a deep
    # recursion (more frames than the interpreter's first stack segment) runs before and after collections.
    from vf import gen
    import copy
    MARK = '@@ '
    DEEP = 'zqdeep(n: MI, a: MI, b: MI, c: MI, d: MI, e: MI, f: MI, g: MI, h: MI): MI == if n = 0 then a + b + c + d + e + f + g + h else 1 + zqdeep(n - 1, b, c, d, e, f, g, h, a + 1);'
    def marks(out): return [l[len(MARK):] for l in out.decode(errors='replace').split('\n') if l.startswith(MARK)]
    sess = []
    for tag, cnt in (('C09-loop-pool', ctx.q(10, 80)), ('C09-loop-fresh-%d' % ctx.seed, ctx.q(10, 120))):
        k = 0
        for sd, g, text, out, cls, d in gen.programs(tag, cnt * 3):
            if cls == 'ok' and 'exceptions' not in g.feat and k < cnt: sess.append((sd, g)); k += 1
    lbase = ctx.tmp('loop')
    def lwork(j):
        sd, g = sess[j]
        r = random.Random('%s/%d' % (sd, ctx.seed))
        g1 = copy.deepcopy(g)
        for _ in range(2):
            g1.main.insert(r.randint(0, len(g1.main)), ('rawstmt', 'pM(zqdeep(%d, 1, 2, 3, 4, 5, 6, 7, 8));' % r.choice([450, 500, 700])))
        g2 = copy.deepcopy(g1)
        ngc = r.randint(1, 4)
        for _ in range(ngc): g2.main.insert(r.randint(0, len(g2.main)), ('rawstmt', '#int gc'))
        t1 = gen.Render(g1, marker=MARK, extra_top=[DEEP]).text(); t2 = gen.Render(g2, marker=MARK, extra_top=[DEEP]).text()
        dd = os.path.join(lbase, str(j)); os.makedirs(dd)
        p1 = routes.aldor(b, ['-Gloop'], dd, stdin=t1.encode(), timeout=300)
        p2 = routes.aldor(b, ['-Gloop'], dd, stdin=t2.encode(), timeout=300)
        shutil.rmtree(dd, ignore_errors=True)
        return sd, t2, p1, p2, ngc
    nloop = 0; ngcs = 0
    for sd, t2, p1, p2, ngc in pmap(lwork, range(len(sess))):
        nloop += 1; ngcs += ngc; n += 1
        files = {'session-with-gc.txt': t2, 'case.txt': '%s\nwithout gc: %s\n%s\nwith gc: %s\n%s' % (sd, p1.cause, p1.out[-1500:].decode(errors='replace'), p2.cause, p2.out[-1500:].decode(errors='replace'))}
        if p2.timeout and not p1.timeout: ctx.violation('hang:loop:int-gc', sd, files); continue
        f1 = bool(fault_text(p1)) or bool(p1.sig); f2 = bool(fault_text(p2)) or bool(p2.sig)
        if f2 and not f1: ctx.violation('storage-fault:loop:int-gc', '%s: the session with #int gc ends in %s %s' % (sd, p2.cause, fault_text(p2)), files); continue
        if f1: continue
        if marks(p1.out) != marks(p2.out): ctx.violation('result-changed:loop:int-gc', '%s: marked lines differ (%d vs %d lines)' % (sd, len(marks(p1.out)), len(marks(p2.out))), files)
    ctx.sample({'program': progs[0]['name'], 'schedule': 'ALDOR_VERIF_GC=3:1 (collect at allocations 1,4,7,...)'})
    inconc = None
    if forced < 100: inconc = 'fewer than 100 collections were forced'
    if len(shp) < 4: inconc = 'a heap-shape program did not run: %s' % sorted(shp)
    ctx.finish(n, len(progs), 'one evaluation = one run of an executable / interpreted .ao under one collection schedule compared with its unforced run; distinct = programs',
               extra={'programs': len(progs), 'runs_per_route': per, 'forced_collections_total': forced, 'natural_runs_that_collected': natural_gcs, 'levels': LEVELS, 'heap_shape_programs': shp, 'interactive_sessions': nloop, 'int_gc_commands': ngcs}, inconclusive=inconc, min_eval=50)

main_guard(main)
