#!/usr/bin/env python3
"""C14  Parsing does not depend on layout.
Every eligible source of the corpus and the templates is rewritten by layout-only edits (white space between
tokens, blank lines, comments, line splits and joins, escaped line breaks, uniform re-indentation and tab
expansion of piled sources, and hand-paired braced/piled renderings) and the parse trees written by -Fap are
compared byte for byte."""
import os, sys, random
sys.path.insert(0, os.path.dirname(os.path.dirname(os.path.abspath(__file__))))
from vf.core import *
from vf import routes, corpus, layout, pile

# hand-paired renderings of the same abstract program: (braced, piled)
PAIRS = [('''#include "aldor"
#include "aldorio"
import from MachineInteger;
{
f(n: MachineInteger): MachineInteger == { n < 2 => 1; n * f(n - 1) }
g(a: MachineInteger, b: MachineInteger): MachineInteger == {
	local t: MachineInteger := a;
	while t < b repeat { t := t + 3; if t = 7 then break }
	t
}
stdout << f 5 << newline;
stdout << g(1, 20) << newline
}
''', '''#include "aldor"
#include "aldorio"
import from MachineInteger;
#pile
f(n: MachineInteger): MachineInteger ==
	n < 2 => 1
	n * f(n - 1)
g(a: MachineInteger, b: MachineInteger): MachineInteger ==
	local t: MachineInteger := a
	while t < b repeat
		t := t + 3
		if t = 7 then break
	t
stdout << f 5 << newline
stdout << g(1, 20) << newline
'''), ('''#include "aldor"
import from MachineInteger, Boolean;
{
D: with { mk: MachineInteger -> %; val: % -> MachineInteger } == add {
	Rep == MachineInteger;
	import from Rep;
	mk(n: MachineInteger): % == per n;
	val(d: %): MachineInteger == { r := rep d; if r > 10 then { 10 } else { r } }
}
h(x: MachineInteger): Boolean == { for i in 1..x repeat { if i = 3 then return true }; false }
}
''', '''#include "aldor"
import from MachineInteger, Boolean;
#pile
D: with { mk: MachineInteger -> %; val: % -> MachineInteger } == add
	Rep == MachineInteger
	import from Rep
	mk(n: MachineInteger): % == per n
	val(d: %): MachineInteger ==
		r := rep d
		if r > 10 then
			10
		else
			r
h(x: MachineInteger): Boolean ==
	for i in 1..x repeat
		if i = 3 then return true
	false
''')]

def main():
    ctx = Ctx('C14', 'exploration', variants=('core',))
    b = ctx.b; rng = ctx.rng
    # -Fap only needs the front end: include files are needed, libraries are not (parse happens before type inference)
    srcs = corpus.sources(b)
    excl = set()
    ep = os.path.join(VERIF, 'corpus', 'c14_exclude.txt')
    if os.path.exists(ep): excl = set(l.split()[0] for l in open(ep) if l.strip() and not l.startswith('#'))
    pool = []
    for s_ in srcs:
        if s_['name'] + '/' + s_['lib'] in excl: continue
        try: t = open(s_['path'], encoding='latin-1').read()
        except OSError: continue
        if len(t) > 40000 or not layout.eligible(t): continue
        pool.append((s_['name'] + '/' + s_['lib'], s_['lib'], s_['dir'], t))
    sys.path.insert(0, VERIF); from checks_templates import TEMPLATES
    for i, t in enumerate(TEMPLATES): pool.append(('template%d' % i, 'aldor', None, t))
    nsrc = ctx.q(400, len(pool)); nrew = ctx.q(10, 40)
    frng = random.Random('C14-fixed')
    chosen = frng.sample(pool, min(len(pool), nsrc))
    base = ctx.tmp('w')
    def ap_of(d, name, text, lib, srcdir):
        p = os.path.join(d, name + '.as')
        with open(p, 'w', encoding='latin-1') as fh: fh.write(text)
        inc = ['-I' + srcdir] if srcdir else []
        r = routes.aldor(b, inc + ['-Fap=' + name + '.ap', '-Mno-warnings', '-Mno-emax', name + '.as'], d, lib=lib, timeout=120)
        try: ap = open(os.path.join(d, name + '.ap'), 'rb').read()
        except OSError: ap = None
        return r, ap
    def work(job):
        j, (name, lib, srcdir, text) = job
        d = os.path.join(base, str(j)); os.makedirs(d, exist_ok=True)
        r0, ap0 = ap_of(d, 'orig', text, lib, srcdir)
        res = []
        if ap0 is not None:
            lr = random.Random('%s/%d/%s' % (name, ctx.seed, 'x'))
            for k in range(nrew):
                t2, kinds = layout.rewrite(text, lr)
                r, ap = ap_of(d, 'v%d' % k, t2, lib, srcdir)
                if ap != ap0: res.append((k, kinds, t2, ap, r))
                else: res.append((k, kinds, None, None, None))
        shutil.rmtree(d, ignore_errors=True)
        return name, text, ap0 is not None, res, r0
    ncmp = 0; nparsed = 0; kinds_seen = {}
    for name, text, parsed, res, r0 in pmap(work, list(enumerate(chosen))):
        if not parsed: continue
        nparsed += 1
        for k, kinds, t2, ap, r in res:
            ncmp += 1
            for kd in kinds: kinds_seen[kd] = kinds_seen.get(kd, 0) + 1
            if t2 is not None:
                what = 'parse tree of %s changed under layout edits %s (%s)' % (name, kinds, 'no .ap written: ' + (r.out[-300:].decode(errors='replace')) if ap is None else 'different .ap')
                ctx.violation('layout-changes-parse:%s' % name, what, files={'orig.as': text, 'rewritten.as': t2})
    # hand-paired braced / piled renderings
    for i, (br, pi) in enumerate(PAIRS):
        d = ctx.tmp('pair%d' % i)
        r1, a1 = ap_of(d, 'braced', br, 'aldor', None); r2, a2 = ap_of(d, 'piled', pi, 'aldor', None)
        ncmp += 1
        if a1 is None or a2 is None or a1 != a2:
            ctx.violation('braced-vs-piled:%d' % i, 'paired renderings parse differently', files={'braced.as': br, 'piled.as': pi, 'braced.ap': a1 or b'', 'piled.ap': a2 or b''})
        lr = random.Random('pair%d/%d' % (i, ctx.seed))
        for k in range(nrew * 3):
            for nm, tx, ref in (('braced', br, a1), ('piled', pi, a2)):
                t2, kinds = layout.rewrite(tx, lr)
                r, ap = ap_of(d, 'p%s%d' % (nm, k), t2, 'aldor', None); ncmp += 1
                for kd in kinds: kinds_seen[kd] = kinds_seen.get(kd, 0) + 1
                if ap != ref: ctx.violation('layout-changes-parse:pair%d-%s' % (i, nm), 'edits %s' % kinds, files={'orig.as': tx, 'rewritten.as': t2})
    # generated abstract programs, each rendered braced and piled (vf/pile.py): renderings x token spacing x comment/blank-line
    # noise x indentation width 1..8 x tabs/spaces must all give the parse tree of the plain braced rendering
    ngen = ctx.q(600, 4000); nvar = ctx.q(6, 12)
    gseeds = ['C14-pile-pool/%d' % i for i in range(ngen // 2)] + ['C14-pile-fresh-%d/%d' % (ctx.seed, i) for i in range(ngen - ngen // 2)]
    gbase = ctx.tmp('g')
    def gwork(sd):
        prog, kinds = pile.make(sd)
        d = os.path.join(gbase, sd.replace('/', '_')); os.makedirs(d, exist_ok=True)
        tb = pile.braced(prog)
        r0, a0 = ap_of(d, 'b', tb, 'aldor', None)
        msgs = r0.out + r0.err
        bad = []; n = 0; widths = set()
        if a0 is None or r0.rc != 0 or b'Error' in msgs:
            shutil.rmtree(d, ignore_errors=True); return sd, kinds, None, bad, 0, widths
        lr = random.Random('%s/%d' % (sd, ctx.seed))
        for k in range(nvar):
            if k == 0: tp, info = pile.piled(prog, lr, width=4, tabs=False, noise=False, spacing=False)
            else: tp, info = pile.piled(prog, lr)
            widths.add((info['width'], info['tabs']))
            r, a = ap_of(d, 'p%d' % k, tp, 'aldor', None); n += 1
            if a != a0 or r.rc != 0: bad.append(('piled', info, tp, a, r))
            tv = pile.braced_variant(prog, lr)
            r, a = ap_of(d, 'v%d' % k, tv, 'aldor', None); n += 1
            if a != a0 or r.rc != 0: bad.append(('braced', {}, tv, a, r))
        shutil.rmtree(d, ignore_errors=True)
        return sd, kinds, tb, bad, n, widths
    ngood = 0; gkinds = {}; gwidths = set(); ndisc = 0
    for sd, kinds, tb, bad, n, widths in pmap(gwork, gseeds):
        if tb is None: ndisc += 1; continue
        ngood += 1; ncmp += n; gwidths |= widths
        for kd in kinds: gkinds[kd] = gkinds.get(kd, 0) + 1
        for which, info, text, a, r in bad:
            what = '%s: %s rendering %s parses differently from the plain braced rendering (%s)' % (sd, which, info, 'no tree: ' + (r.out + r.err)[-300:].decode(errors='replace') if a is None else 'different tree')
            ctx.violation('generated:%s-rendering-differs' % which, what, files={'braced.as': tb, 'variant.as': text})
    inconc = '%d of %d generated programs did not parse in their braced rendering' % (ndisc, len(gseeds)) if ndisc * 10 > len(gseeds) else None
    ctx.sample({'source': chosen[0][0], 'edit_kinds_seen': kinds_seen})
    ctx.assumptions += ['the rewriter only changes existing white-space runs, adds/removes blank and comment lines, splits/joins plain code lines (braced sources) or rescales indentation (piled sources); it never inserts white space between adjacent tokens',
                        'sources with non-ASCII bytes, escapes at line ends or odd string quoting are not rewritten (eligibility filter)']
    ctx.finish(ncmp, nparsed + len(PAIRS) + ngood, 'one evaluation = the .ap of one layout variant compared with the .ap of its original; distinct = sources whose original parsed',
               extra={'sources': nparsed, 'variants_per_source': nrew, 'pool': len(pool), 'edit_kinds': kinds_seen, 'pairs': len(PAIRS),
                      'generated_programs': ngood, 'generated_discarded': ndisc, 'generated_statement_kinds': gkinds, 'renderings_per_generated_program': 2 * nvar,
                      'indent_width_x_tabs_seen': sorted(gwidths)}, inconclusive=inconc, min_eval=200)

main_guard(main)
