#!/usr/bin/env python3
"""C19  Floating-point constants keep their exact value.
(1) harness/xfloat_h.c sweeps bit patterns through the portable encoding and dissemble/assemble,
    with an independent model of the portable bytes for normal numbers;
(2) end to end: decimal literals converted at compile time (folded, stored in .ao / .fm / C)
    versus converted by the runtime, versus Python's correctly rounded conversion."""
import os, sys, struct
sys.path.insert(0, os.path.dirname(os.path.dirname(os.path.abspath(__file__))))
from vf.core import *
from vf import routes

HEAD = '''#include "aldor"
#include "aldorio"
import from Machine;
import {
  DFloDissemble: (DFlo) -> (Bool, SInt, Word, Word);
  SFloDissemble: (SFlo) -> (Bool, SInt, Word);
} from Builtin;
import from MachineInteger, Boolean, String, DoubleFloat, SingleFloat;
pD(x: DoubleFloat): () == {
	(s: Bool, e: SInt, w0: Word, w1: Word) := DFloDissemble(x::DFlo);
	stdout << "D " << (s::Boolean) << " " << (e::MachineInteger) << " " << ((w0 pretend SInt)::MachineInteger) << newline;
}
pF(x: SingleFloat): () == {
	(s: Bool, e: SInt, w0: Word) := SFloDissemble(x::SFlo);
	stdout << "F " << (s::Boolean) << " " << (e::MachineInteger) << " " << ((w0 pretend SInt)::MachineInteger) << newline;
}
'''

def dmodel(lit):
    v = float(lit)
    u = struct.unpack('>Q', struct.pack('>d', v))[0]
    s, e, f = u >> 63, (u >> 52) & 0x7ff, u & ((1 << 52) - 1)
    w0 = int.from_bytes((f << 12).to_bytes(8, 'big'), 'little')
    return ('T' if s else 'F', e - 1023, w0)

def fmodel(lit):
    v = float(lit)
    try: u = struct.unpack('>I', struct.pack('>f', v))[0]
    except OverflowError: u = 0x7f800000
    s, e, f = u >> 31, (u >> 23) & 0xff, u & ((1 << 23) - 1)
    w0 = int.from_bytes((f << 9).to_bytes(4, 'big'), 'little')
    return ('T' if s else 'F', e - 127, w0)

def literals(rng, n):
    """decimal literals: shortest round-trip renderings of boundary and random values, halfway cases,
    long digit strings, exponents at the subnormal and overflow edges.  Non-negative (sign is an operator)."""
    out = []
    def fmt(v):
        r = repr(v)
        if 'e' in r:
            m, e = r.split('e'); 
            if '.' not in m: m += '.0'
            return m + 'e' + str(int(e))
        return r
    for i in range(n):
        k = rng.random()
        if k < 0.3:
            u = rng.getrandbits(64) & 0x7fffffffffffffff
            e = rng.choice([0, 1, 2, 1022, 1023, 1024, 2045, 2046, rng.randint(0, 2046)])
            u = (u & ((1 << 52) - 1)) | (e << 52)
            if rng.random() < 0.3: u &= ~((1 << rng.randint(1, 52)) - 1)
            v = struct.unpack('>d', struct.pack('>Q', u))[0]
            out.append(fmt(v))
        elif k < 0.45:
            u = rng.getrandbits(31) & 0x7f7fffff
            v = struct.unpack('>f', struct.pack('>I', u))[0]
            out.append(fmt(v))
        elif k < 0.6:    # halfway between two adjacent doubles, written exactly
            u = rng.getrandbits(52) | (rng.randint(1000, 1075) << 52)
            a = struct.unpack('>d', struct.pack('>Q', u))[0]
            from fractions import Fraction
            mid = (Fraction(a) + Fraction(struct.unpack('>d', struct.pack('>Q', u + 1))[0])) / 2
            if mid.denominator == 1: out.append(str(mid.numerator) + '.0')
            else:
                # exact decimal expansion exists (denominator is a power of two)
                k2 = mid.denominator.bit_length() - 1
                num = mid.numerator * 5 ** k2
                sN = str(num).rjust(k2 + 1, '0')
                out.append(sN[:-k2] + '.' + sN[-k2:])
        elif k < 0.75:
            digs = ''.join(rng.choice('0123456789') for _ in range(rng.randint(17, 40)))
            p = rng.randint(1, len(digs) - 1)
            out.append((digs[:p].lstrip('0') or '0') + '.' + digs[p:])
        elif k < 0.9:
            m = '%d.%s' % (rng.randint(1, 9), ''.join(rng.choice('0123456789') for _ in range(rng.randint(1, 18))))
            e = rng.choice([-324, -323, -322, -308, -307, -46, -45, -38, -37, 37, 38, 39, 307, 308, rng.randint(-330, 308)])
            out.append('%se%d' % (m, e))
        else:
            out.append(rng.choice(['0.0', '1.0', '0.1', '0.5', '2.2250738585072014e-308', '2.2250738585072011e-308', '4.9e-324', '2.4703282292062328e-324',
                                   '1.7976931348623157e308', '9007199254740993.0', '9007199254740992.0', '1.17549435e-38', '3.4028235e38', '3.4028236e38', '16777217.0', '0.30000000000000004']))
    ok = []
    for l in out:
        v = float(l)
        if v == float('inf'): continue          # an overflowing literal is not a constant with a value to keep
        ok.append(l)
    return ok

def hard_singles(rng, n):
    """decimal literals a hair above or below the midpoint of two adjacent single-precision numbers: converting straight to
    single and converting through double (what both of the repository's converters do) differ by one ulp on them
    (added after seeded change C19-sflo-fold-single-rounding)"""
    from fractions import Fraction
    out = []
    for _ in range(n):
        u = (rng.getrandbits(23)) | (rng.randint(127 - 20, 127 + 20) << 23)
        a = struct.unpack('>f', struct.pack('>I', u))[0]; b_ = struct.unpack('>f', struct.pack('>I', u + 1))[0]
        mid = (Fraction(a) + Fraction(b_)) / 2
        k2 = mid.denominator.bit_length() - 1
        if k2 == 0: dec = str(mid.numerator) + '.0'
        else:
            sN = str(mid.numerator * 5 ** k2).rjust(k2 + 1, '0'); dec = sN[:-k2] + '.' + sN[-k2:]
        if rng.random() < 0.5: out.append(dec + '0000000001')
        else:
            # just below: decrement the last digit (it is 5 for a midpoint) and append nines
            out.append(dec[:-1] + str(int(dec[-1]) - 1) + '9999999999')
    return out

def single_finite(l):
    try: struct.pack('>f', float(l)); return True
    except OverflowError: return False

def main():
    ctx = Ctx('C19', 'exploration', variants=('plain', 'asan'))
    b = ctx.b
    hp = harness(ctx, 'xfloat_h', 'plain', extra_flags=['-O1'])
    ha = harness(ctx, 'xfloat_h', 'asan')
    jobs = []
    if ctx.tier == 'quick':
        stride = 251
        span = (1 << 32) // NCPU
        for i in range(NCPU): jobs.append((hp, ['s', str(i * span + (ctx.seed + i) % stride), str((i + 1) * span), str(stride)]))
        jobs.append((ha, ['s', str(ctx.seed % 65521), str(1 << 32), '65521']))
        for i in range(4): jobs.append((hp, ['d', str(ctx.seed * 16 + i + 1), '500000']))
        jobs.append((ha, ['d', str(ctx.seed + 99), '50000']))
    else:
        span = (1 << 32) // (NCPU * 4)
        for i in range(NCPU * 4): jobs.append((hp, ['s', str(i * span), str((i + 1) * span), '1']))
        jobs.append((ha, ['s', str(ctx.seed % 4093), str(1 << 32), '4093']))
        for i in range(NCPU): jobs.append((hp, ['d', str(ctx.seed * 64 + i + 1), '4000000']))
        jobs.append((ha, ['d', str(ctx.seed + 99), '1000000']))
    def work(j):
        exe, args = j
        return j, run([exe] + args, timeout=3600, env=ASAN_ENV)
    npat = 0; classes = {}
    for (exe, args), p in pmap(work, jobs):
        txt = p.out.decode(errors='replace')
        m = re.search(r'patterns=(\d+) mismatches=(\d+)(.*)', txt)
        variant = 'asan' if exe == ha else 'plain'
        if p.rc != 0 or not m or fault_text(p):
            ctx.violation('harness-fault:%s:%s' % (variant, args[0]), 'xfloat harness %s %s: %s %s' % (variant, args, p.cause, (p.err[-1500:] + p.out[-500:]).decode(errors='replace')),
                          files={'cmd.txt': ' '.join(args), 'stderr.txt': p.err})
            continue
        npat += int(m.group(1))
        for k, v in re.findall(r'(\w+)=(\d+)', m.group(3)): classes[k] = classes.get(k, 0) + int(v)
        if int(m.group(2)):
            kinds = sorted(set(re.findall(r'MISMATCH (\S+)', txt)))
            for k in kinds:
                ctx.violation('pattern:%s' % k, '%s: %s' % (variant, [l for l in txt.split('\n') if k in l][:3]), files={'cmd.txt': 'xfloat_h ' + ' '.join(args), 'out.txt': txt})
    ctx.log('pattern sweep done: %d patterns' % npat)
    ctx.sample({'harness': 'xfloat_h s 0 0x100000000 <stride>', 'classes': classes})

    # ---------------- end to end literals
    nprog = ctx.q(24, 120); per = 120
    progs = []
    for i in range(nprog):
        lits = literals(ctx.rng, per)
        flits = [l for l in lits if single_finite(l) and abs(float(l)) < 3.4028234e38] + hard_singles(ctx.rng, 30)
        body = ''.join('pD(%s);\n' % l for l in lits) + ''.join('pF(%s);\n' % l for l in flits)
        progs.append((i, (lits, flits), HEAD + body))
    lit_seen = set(); nlit = 0; folded_total = 0
    def runprog(pr):
        i, lits, text = pr
        d = ctx.tmp('lit%d' % i)
        res = {}
        def w(sub):
            dd = os.path.join(d, sub); os.makedirs(dd, exist_ok=True)
            open(os.path.join(dd, 'x.as'), 'w').write(text); return dd
        # runtime conversion, interpreted
        dd = w('q0'); res['rt-interp'] = routes.interp_src(b, dd, 'x.as', ['-Q0'])
        # folded: compile to .ao + .fm, interpret the .ao
        dd = w('q2'); pc = routes.aldor(b, ['-Q2', '-Qinline-all', '-Mno-warnings', '-Fao', '-Ffm', 'x.as'], dd)
        fm = ''
        try: fm = open(os.path.join(dd, 'x.fm')).read()
        except OSError: pass
        res['fold-ao-interp'] = routes.interp_ao(b, dd, 'x.ao') if pc.rc == 0 else pc
        remaining = len(re.findall(r'BCall ArrTo[SD]Flo', fm))
        nconst = len(re.findall(r'\((?:DFlo|SFlo) [-0-9]', fm))
        # folded, C route
        dd = w('c2'); pc2, g, exe = routes.compile_c(b, dd, 'x.as', ['-Q2', '-Qinline-all'])
        res['fold-c'] = routes.run_exe(exe, dd) if exe else (g or pc2)
        # runtime conversion, C route
        dd = w('c0'); pc0, g, exe = routes.compile_c(b, dd, 'x.as', ['-Q0'])
        res['rt-c'] = routes.run_exe(exe, dd) if exe else (g or pc0)
        return pr, res, remaining, nconst
    for (i, (lits, flits), text), res, remaining, nconst in pmap(runprog, progs, workers=min(NCPU, 8)):
        exp = ['D %s %d %d' % dmodel(l) for l in lits] + ['F %s %d %d' % fmodel(l) for l in flits]
        alll = lits + flits
        folded_total += nconst
        if remaining > 0 or nconst < len(alll):
            ctx.notes.append('program %d: %d conversions left unfolded, %d float constants in .fm' % (i, remaining, nconst))
        for route, p in res.items():
            got = p.out.decode(errors='replace').split('\n')
            ft = fault_text(p)
            if p.rc != 0 or ft or p.timeout:
                ctx.violation('lit-route-failed:%s' % route, 'route %s: %s %s\n%s' % (route, p.cause, ft, (p.out[-800:] + p.err[-800:]).decode(errors='replace')), files={'x.as': text})
                continue
            # mask single-precision word to its 32 significant bits
            def normline(l):
                f = l.split(' ')
                if len(f) == 4 and f[0] == 'F':
                    try: f[3] = str(int(f[3]) & 0xffffffff)
                    except ValueError: pass
                return ' '.join(f)
            got = [normline(l) for l in got if l]
            for k, (g_, e_) in enumerate(zip(got, exp)):
                nlit += 1
                if g_ != e_:
                    lit = alll[k]
                    kind = 'D' if k < len(lits) else 'F'
                    ctx.violation('literal:%s:%s' % (kind, route), 'literal %s (%s) on route %s: got %r expected %r' % (lit, kind, route, g_, e_), files={'x.as': text, 'literal.txt': lit})
                    break
            if len(got) != len(exp):
                ctx.violation('lit-output-short:%s' % route, 'route %s printed %d lines, expected %d' % (route, len(got), len(exp)), files={'x.as': text})
        lit_seen.update(lits)
    ctx.sample({'literals': sorted(lit_seen)[:6]})
    inconc = None
    if folded_total < len(progs) * per // 2: inconc = 'folder converted only %d of %d literals at compile time' % (folded_total, len(progs) * per * 2)
    ctx.assumptions += ['Python float() is the correctly rounded reference for double literals; singles are float(double(literal)) as both converters define them',
                        'portable-byte model applies to normal numbers only; subnormals, zeros, infinities and NaNs are checked by round trip and class',
                        'NaN payloads may change (any NaN <-> any NaN)']
    ctx.finish(npat + nlit, len(lit_seen) + sum(1 for v in classes.values() if v),
               'bit patterns swept through xsf/xdf FrNative->ToNative, sf/df/xsf/xdf/fi Dissemble->Assemble, portable bytes vs frexp model; literals printed via dissemble on 4 routes vs Python; distinct = distinct literals + float classes seen',
               extra={'patterns': npat, 'classes': classes, 'literal_comparisons': nlit, 'distinct_literals': len(lit_seen), 'float_constants_folded_in_fm': folded_total,
                      'routes': ['rt-interp', 'fold-ao-interp', 'fold-c', 'rt-c'], 'notes': ctx.notes[:10]},
               inconclusive=inconc)

main_guard(main)
