#!/usr/bin/env python3
"""C16  Generated C is valid under every C-generation option.
Each program is translated to C under combinations of {-Cold,-Cstandard} x -Csmax {0,1,5,50} x {-Clines,-Cno-lines}
(default identifier length, linked with the shipped runtime) and compiled with gcc; the executable must behave as the
default-option build.  For identifier lengths {0,31,40,64} the emitted C must compile, and under every option set the
map from FOAM globals to C names must be injective (as many distinct C globals and import/export strings as GDecls)."""
import os, sys, random
sys.path.insert(0, os.path.dirname(os.path.dirname(os.path.abspath(__file__))))
from vf.core import *
from vf import routes, progset, gen, sexp

IDPACK = '''#include "aldor"
#include "aldorio"
macro MI == MachineInteger;
import from MI;
%s
%s
'''
def idpack(rng, n=60):
    """many exported functions with long names sharing prefixes of every length, and operator-character names"""
    base = 'zqAVeryLongIdentifierSharingItsPrefixWithManyOtherIdentifiersOfThisUnit'
    names = []
    for i in range(n):
        k = rng.randint(8, len(base))
        names.append(base[:k] + 'X%dq' % i)
    defs = ['%s(x: MI): MI == x + %d;' % (nm, i) for i, nm in enumerate(names)]
    ops = ['zqplus?(x: MI): MI == x + 1000;', 'zqbang!(x: MI): MI == x + 2000;']
    calls = ['stdout << %s(1) << newline;' % nm for nm in names] + ['stdout << zqplus?(1) << " " << zqbang!(1) << newline;']
    return IDPACK % ('\n'.join(defs + ops), '\n'.join(calls))

def main():
    ctx = Ctx('C16', 'translation_validation', variants=('plain',))
    b = ctx.b; rng = ctx.rng
    progs, disc = progset.pool(b, ctx, ctx.q(10, 40), ctx.q(8, 50), ctx.q(10, 60), 'C16')
    progs.append({'name': 'idpack', 'lib': 'aldor', 'text': idpack(random.Random('idpack')), 'inc': None, 'expected': None, 'g': None})
    OPTS = [(std, smax, ln) for std in ('-Cstandard', '-Cold') for smax in (0, 1, 5, 50) for ln in ('-Clines', '-Cno-lines')]
    IDL = [0, 31, 40, 64]
    base = ctx.tmp('w')
    def build(d, pr, copts, link=True):
        progset.place(d, pr)
        p = routes.aldor(b, ['-Q2', '-Mno-warnings'] + list(copts) + progset.inc(pr) + ['-Fc', '-Fmain', '-Ffm', 'x.as'], d, lib=pr['lib'], timeout=120)
        if p.rc != 0 or p.timeout: return p, None, None, None
        cs = sorted(f for f in os.listdir(d) if f.endswith('.c'))
        std = '-std=gnu89' if '-Cold' in copts else '-std=gnu99'
        cfiles = {f: open(os.path.join(d, f), encoding='latin-1').read() for f in cs}
        if link:
            g = run(['gcc', std, '-w', '-Werror=implicit-function-declaration', '-O0', '-I' + b.S, '-I' + d] + cs + b.link_libs(pr['lib']) + ['-o', os.path.join(d, 'x.exe')], cwd=d, timeout=300)
        else:
            g = run(['gcc', std, '-w', '-Werror=implicit-function-declaration', '-O0', '-I' + b.S, '-I' + d, '-c'] + cs, cwd=d, timeout=300)
        fm = ''
        try: fm = open(os.path.join(d, 'x.fm'), encoding='latin-1').read()
        except OSError: pass
        return p, g, cfiles, fm
    def injective(cfiles, fm):
        """(#FOAM globals with protocol Foam/Init, #distinct names under which the C registers or looks them up)"""
        gd = set()
        def walk(x):
            if isinstance(x, list):
                if x and x[0] == 'GDecl' and len(x) >= 7 and x[-1] in ('Foam', 'Init'): gd.add(x[2])
                for e in x: walk(e)
        try: walk(sexp.parse(fm))
        except ValueError: return None
        allc = '\n'.join(cfiles.values())
        strs = set(re.findall(r'fi(?:Import|Export)Global\(\s*"([^"]+)"', allc))
        return len(gd), len(strs), len(strs)
    def work(j):
        pr = progs[j]
        r = random.Random('%s/%d' % (pr['name'], ctx.seed))
        d0 = os.path.join(base, '%d-def' % j)
        p0, g0, c0, fm0 = build(d0, pr, [])
        res = []
        if g0 is None or g0.rc != 0:
            shutil.rmtree(d0, ignore_errors=True); return j, ('default-build-failed', p0, g0), res
        r0 = routes.run_exe(os.path.join(d0, 'x.exe'), d0)
        res.append(('default', [], p0, g0, r0, injective(c0, fm0)))
        sel = OPTS if ctx.tier == 'thorough' or pr['name'] == 'idpack' else r.sample(OPTS, 4)
        for std, smax, ln in sel:
            co = [std, '-Csmax=%d' % smax, ln]
            d = os.path.join(base, '%d-%s' % (j, re.sub(r'\W+', '_', ' '.join(co))))
            p, g, c, fm = build(d, pr, co)
            rr = routes.run_exe(os.path.join(d, 'x.exe'), d) if g is not None and g.rc == 0 else None
            res.append(('opts', co, p, g, rr, injective(c, fm) if c else None, len(c or {})))
            shutil.rmtree(d, ignore_errors=True)
        # the split boundary: the smallest -Csmax for which the unit is NOT split, found by bisection on the number of files
        # written, then smax = K-1, K, K+1 built and run (added after seeded change C16-smax-boundary: the file-splitting loop
        # and the macro that decides naming/linkage must agree exactly at the boundary; fixed smax values never sit on it)
        if ctx.tier == 'thorough' or j % 3 == 0 or pr['name'] == 'idpack':
            def nfiles(smax):
                dd = os.path.join(base, '%d-bis' % j); shutil.rmtree(dd, ignore_errors=True); progset.place(dd, pr)
                pq = routes.aldor(b, ['-Q2', '-Mno-warnings', '-Csmax=%d' % smax] + progset.inc(pr) + ['-Fc', 'x.as'], dd, lib=pr['lib'], timeout=120)
                k = len([f for f in os.listdir(dd) if f.endswith('.c')]) if pq.rc == 0 else None
                shutil.rmtree(dd, ignore_errors=True); return k
            lo_, hi_ = 1, 8192
            n_hi = nfiles(hi_); n_lo = nfiles(lo_)
            if n_hi is not None and n_lo is not None and n_lo > n_hi:
                while hi_ - lo_ > 1:
                    mid = (lo_ + hi_) // 2
                    k = nfiles(mid)
                    if k is None: break
                    if k > n_hi: lo_ = mid
                    else: hi_ = mid
                for smax in (hi_ - 1, hi_, hi_ + 1):
                    co = ['-Csmax=%d' % smax]
                    d = os.path.join(base, '%d-bnd%d' % (j, smax))
                    p, g, c, fm = build(d, pr, co)
                    rr = routes.run_exe(os.path.join(d, 'x.exe'), d) if g is not None and g.rc == 0 else None
                    res.append(('opts', co + ['(split boundary %+d)' % (smax - hi_)], p, g, rr, injective(c, fm) if c else None, len(c or {})))
                    shutil.rmtree(d, ignore_errors=True)
        for idl in (IDL if ctx.tier == 'thorough' or pr['name'] == 'idpack' else r.sample(IDL, 2)):
            co = ['-Cidlen=%d' % idl, '-Cidhash']
            d = os.path.join(base, '%d-idlen%d' % (j, idl))
            p, g, c, fm = build(d, pr, co, link=False)
            res.append(('idlen', co, p, g, None, injective(c, fm) if c else None, len(c or {})))
            shutil.rmtree(d, ignore_errors=True)
        shutil.rmtree(d0, ignore_errors=True)
        return j, None, res
    n = 0; nsplit = 0
    for j, err, res in pmap(work, range(len(progs))):
        pr = progs[j]; who = pr['name'] if not pr['name'].startswith('gen:') else 'generated'
        if err:
            _, p0, g0 = err
            if p0.rc == 0 and not p0.timeout:
                ctx.violation('default-options:c-does-not-build:%s' % who, '%s: %s' % (pr['name'], (g0.err if g0 else p0.out)[-500:].decode(errors='replace')), {'x.as': pr['text']})
            continue
        ref = res[0][4]
        for ent in res:
            kind, co, p, g, rr, inj = ent[:6]
            n += 1
            tag = ' '.join(co) or 'default'
            files = {'x.as': pr['text'], 'case.txt': '%s options %s\n%s\n%s' % (pr['name'], tag, (p.out[-500:] if p else b'').decode(errors='replace'), (g.err[-1500:] if g is not None else b'').decode(errors='replace'))}
            oc = re.sub(r'smax=\d+', 'smax=N', re.sub(r'idlen=\d+', 'idlen=N', tag))
            if g is None:
                ctx.violation('no-c-emitted:%s:%s' % (oc, who), '%s with %s: compiler failed: %s' % (pr['name'], tag, p.out[-300:].decode(errors='replace')), files); continue
            if g.rc != 0:
                ctx.violation('c-does-not-compile:%s:%s' % (oc, who), '%s with %s: gcc: %s' % (pr['name'], tag, g.err[-400:].decode(errors='replace')), files); continue
            if len(ent) > 6 and ent[6] > 2: nsplit += 1
            if inj and not (inj[0] == inj[1] == inj[2]):
                ctx.violation('c-names-not-injective:%s' % oc, '%s with %s: %d FOAM globals, %d distinct import/export names in the C' % (pr['name'], tag, inj[0], inj[1]), files); continue
            if kind in ('opts',) and rr is not None:
                f0 = ref.xclass == 'signal'; f1 = rr.xclass == 'signal'
                if rr.timeout: ctx.violation('hang:%s:%s' % (oc, who), tag, files)
                elif (rr.out != ref.out or (rr.rc == 0) != (ref.rc == 0)) and not (f0 and f1):
                    ctx.violation('behaviour-differs:%s:%s' % (oc, who), '%s with %s: %r/%s, default options %r/%s' % (pr['name'], tag, rr.out[-120:], rr.cause, ref.out[-120:], ref.cause), files)
    # ------------------------------------------------ adversarial names: equal hash prefix and equal truncated tail
    def str_hash(t):
        h = 0
        for ch in t.encode('latin-1'):
            h ^= (h << 8); h += ch + 200041; h &= 0x3FFFFFFF
        return h
    def b36(n):
        d = '0123456789ABCDEFGHIJKLMNOPQRSTUVWXYZ'; r = ''
        while n: r = d[n % 36] + r; n //= 36
        return r
    LIBU = '#include "aldor"\nmacro MI == MachineInteger;\nimport from MI;\n%s\n'
    PREFIX = 'zqCollidingIdentifierWithALongSharedPrefix'
    dcol = ctx.tmp('collide')
    open(os.path.join(dcol, 'zqcl.as'), 'w').write(LIBU % ('%sprobe(x: MI): MI == x + 1;' % PREFIX))
    pp = routes.aldor(b, ['-Q1', '-Mno-warnings', '-Fc', '-Ffm', '-Fao', 'zqcl.as'], dcol, timeout=120)
    collision = None
    if pp.rc == 0:
        fm = open(os.path.join(dcol, 'zqcl.fm'), encoding='latin-1').read(); cc = open(os.path.join(dcol, 'zqcl.c'), encoding='latin-1').read()
        m = re.search(r'"(zqcl_%sprobe_(\d+))"' % PREFIX, fm)
        if m:
            gname, th = m.group(1), m.group(2)
            mine = 'G_%s_' % b36(str_hash(gname) % 0x39AA3F9)
            if mine not in cc:
                ctx.violation('hash-model-mismatch', 'the re-implemented name hash gives %s for %s, which the emitted C does not contain' % (mine, gname), {'zqcl.c': cc[:100000]})
            else:
                seen = {}; rr = random.Random('collide')
                for k in range(400000):
                    suf = ''.join(rr.choice('abcdefghijklmnopqrstuvwxyz') for _ in range(6))
                    hv = str_hash('zqcl_%s%s_%s' % (PREFIX, suf, th)) % 0x39AA3F9
                    if hv in seen and seen[hv] != suf: collision = (seen[hv], suf, k + 1); break
                    seen[hv] = suf
    if collision:
        a_, b_, tries = collision
        lib = LIBU % ('%s%s(x: MI): MI == x + 10;\n%s%s(x: MI): MI == x + 20;' % (PREFIX, a_, PREFIX, b_))
        cl = '#include "aldor"\n#include "aldorio"\n#library ZqCl "zqcl.ao"\nimport from ZqCl;\nmacro MI == MachineInteger;\nimport from MI;\nstdout << %s%s(1) << " " << %s%s(2) << newline;\n' % (PREFIX, a_, PREFIX, b_)
        d2 = ctx.tmp('collide2')
        open(os.path.join(d2, 'zqcl.as'), 'w').write(lib); open(os.path.join(d2, 'client.as'), 'w').write(cl)
        p1 = routes.aldor(b, ['-Q1', '-Mno-warnings', '-Fao', '-Fc', 'zqcl.as'], d2, timeout=120)
        ri = routes.interp_src(b, d2, 'client.as', ['-Q1'])
        p2 = routes.aldor(b, ['-Q1', '-Mno-warnings', '-Fc', '-Fmain', 'client.as'], d2, timeout=120)
        gg = run(['gcc', '-w', '-O0', '-I' + b.S, 'client.c', 'client-aldormain.c', 'zqcl.c'] + b.link_libs('aldor') + ['-o', os.path.join(d2, 'cl.exe')], cwd=d2, timeout=300)
        rc_ = routes.run_exe(os.path.join(d2, 'cl.exe'), d2) if gg.rc == 0 else gg
        n += 1
        cnames = re.findall(r'fiExportGlobal\(\s*"([^"]+)"', open(os.path.join(d2, 'zqcl.c'), encoding='latin-1').read()) if p1.rc == 0 else []
        dup = len(cnames) != len(set(cnames))
        if gg.rc != 0 or rc_.out != ri.out or dup:
            ctx.violation('idhash-collision', 'exports %s%s and %s%s (found after %d candidates) have the same 26-bit name hash and the same first 22 characters: %s; interpreter prints %r, C route %r' %
                          (PREFIX, a_, PREFIX, b_, tries, 'both receive one C global name' if dup else 'distinct names', ri.out, rc_.out if gg.rc == 0 else 'link failed'),
                          {'zqcl.as': lib, 'client.as': cl})
    ctx.sample({'program': progs[0]['name'], 'option_sets': [' '.join([a, '-Csmax=%d' % s_, l]) for a, s_, l in OPTS[:4]], 'idlen': IDL})
    ctx.assumptions += ['-Cold is compiled with gcc -std=gnu89, -Cstandard with -std=gnu99, both with -Werror=implicit-function-declaration',
                        'identifier lengths other than the default are compiled but not linked: the shipped runtime was generated with the default length (recorded finding C16 idlen!=30:shipped-runtime)']
    ctx.finish(n, len(progs), 'one evaluation = one program translated under one option set, compiled (and linked and run where the shipped runtime allows) and compared with the default-option build; distinct = programs',
               extra={'programs': len(progs), 'option_sets': len(OPTS), 'idlen_values': IDL, 'builds_with_split_files': nsplit, 'disagreements_checked': len(ctx.viol) + len(ctx.known_hit)}, min_eval=50)

main_guard(main)
