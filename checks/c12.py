#!/usr/bin/env python3
"""C12  The Java back end agrees with the other execution routes.
Generated programs without exception statements (the Java generator has no Catch) and with machine integers kept within
31 bits (the Java runtime's machine integer is int) are translated with -Fjava -Jmain, compiled in one javac invocation
against the shipped jars and run; output and exit class must equal the interpreter's and the reference evaluator's.
A program for which the compiler says `Java not implemented' is outside the supported subset, except that the committed
canaries (corpus/c12_canaries.txt: pool programs supported on the pinned tree) must stay supported."""
import os, sys, random
sys.path.insert(0, os.path.dirname(os.path.dirname(os.path.abspath(__file__))))
from vf.core import *
from vf import routes, gen

FEATS = ['funcs', 'recursion', 'closures', 'overload', 'macros', 'records', 'lists', 'bignum', 'strings', 'earlyexit', 'loops', 'unions', 'domains', 'generators']

def main():
    ctx = Ctx('C12', 'translation_validation', variants=('plain',))
    b = ctx.b
    npool = ctx.q(30, 200); nfresh = ctx.q(20, 300)
    progs = []
    def take(tag, cnt, extra=()):
        k = 0; tried = 0
        while k < cnt and tried < cnt * 40:
            sd = '%s/%d' % (tag, tried); tried += 1
            r = random.Random(sd)
            feats = set(r.sample(FEATS, r.randint(3, len(FEATS)))) | set(extra)
            try:
                g = gen.Gen(sd, features=feats); g.mi_lit_max = 1 << 30; g.build()
                out, cls = gen.Eval(g, mi_bits=30).run()
            except (gen.Discard, RecursionError): continue
            progs.append((sd, g, gen.Render(g).text(), out, cls)); k += 1
    if os.environ.get('VF_C12_ONLY_BUILTINS'): npool = 2; nfresh = 0
    take('C12-pool', npool); take('C12-fresh-%d' % ctx.seed, nfresh)
    # opt-in shape: a curried counter whose innermost closure assigns a variable two environment levels up (after inlining at -Q3
    # this is a store through (EElt fmt env LEVEL idx) with LEVEL > 0; added after seeded change C12-java-eelt-store)
    ncnt = ctx.q(10, 80) if not os.environ.get('VF_C12_ONLY_BUILTINS') else 0
    take('C12-counter-pool', ncnt // 2, extra=('counters', 'closures')); take('C12-counter-fresh-%d' % ctx.seed, ncnt - ncnt // 2, extra=('counters', 'closures'))
    canaries = set()
    cp_ = os.path.join(VERIF, 'corpus', 'c12_canaries.txt')
    if os.path.exists(cp_): canaries = set(l.strip() for l in open(cp_) if l.strip())
    LEVELS = ['-Q1', '-Q3'] if ctx.tier == 'quick' else ['-Q1', '-Q3', '-Q9']
    d = ctx.tmp('java'); os.makedirs(os.path.join(d, 'out'))
    CP = ':'.join([os.path.join(b.B, 'aldor/lib/java/src/foamj.jar'), os.path.join(b.B, 'aldor/lib/libfoam/al/foam.jar'), os.path.join(b.B, 'lib/aldor/src/aldor.jar')])
    units = []
    for i, (sd, g, text, out, cls) in enumerate(progs):
        for lv in LEVELS:
            units.append((i, lv, 'zqj%dq%s' % (i, lv[2:])))
    def trans(u):
        i, lv, name = u
        open(os.path.join(d, name + '.as'), 'w').write(progs[i][2])
        p = routes.aldor(b, [lv, '-Mno-warnings', '-Jmain', '-Fjava', name + '.as'], d, timeout=120)
        return u, p
    tr = pmap(trans, units)
    supported = []; unsupported = 0; n = 0; q9hang = 0; refused = 0
    for (i, lv, name), p in tr:
        sd = progs[i][0]
        blob = p.out + p.err
        if b'Java not implemented' in blob:
            unsupported += 1
            try: os.unlink(os.path.join(d, 'aldorcode', name + '.java'))
            except OSError: pass
            if '%s %s' % (sd, lv) in canaries:
                ctx.violation('canary-no-longer-supported', '%s %s: %s' % (sd, lv, re.search(rb'Java not implemented[^\n]*', blob).group(0).decode(errors='replace')), {'x.as': progs[i][2]})
            continue
        if (p.timeout or p.sig == 9) and lv == '-Q9':
            # the optimiser not terminating at -Q9 is C02's recorded finding (hang:Q9-family); it is not a Java matter
            q9hang += 1; continue
        if p.rc != 0 and re.search(rb'\[L\d+ C\d+\] #\d+ \((Fatal )?Error\)', blob) and b'Program fault' not in blob:
            # refused by the front end (a C06 matter: the generator's programs are occasionally refused by type inference)
            refused += 1; continue
        if p.rc != 0 or p.timeout or not os.path.exists(os.path.join(d, 'aldorcode', name + '.java')):
            ctx.violation('java-generation-failed', '%s %s: %s %s' % (sd, lv, p.cause, blob[-300:].decode(errors='replace')), {'x.as': progs[i][2]}); continue
        supported.append((i, lv, name))
    ctx.log('%d units translated, %d unsupported, %d skipped (-Q9 optimiser does not terminate), %d refused by the front end' % (len(supported), unsupported, q9hang, refused))
    if refused * 20 > len(units): ctx.violation('too-many-valid-programs-rejected', '%d of %d units were refused by the compiler' % (refused, len(units)))
    # one javac per chunk
    chunks = [supported[k:k + 8] for k in range(0, len(supported), 8)]
    def jc(ch):
        files = [os.path.join('aldorcode', nm + '.java') for _, _, nm in ch]
        return ch, run(['javac', '-nowarn', '-cp', CP, '-d', 'out'] + files, cwd=d, timeout=900)
    good = []; retry = []
    for ch, p in pmap(jc, chunks, workers=8):
        if p.rc != 0: retry += ch
        else: good += ch
    def jc1(u):       # find the culprits of a failed chunk one by one
        return u, run(['javac', '-nowarn', '-cp', CP + ':out', '-d', 'out', os.path.join('aldorcode', u[2] + '.java')], cwd=d, timeout=300)
    for u, q_ in pmap(jc1, retry, workers=8):
        if q_.rc != 0:
            msg = (q_.err + q_.out).decode(errors='replace')
            key = 'javac-rejects:not-a-statement' if 'error: not a statement' in msg and msg.count('error:') == 1 else 'javac-rejects-generated-class'
            ctx.violation(key, '%s %s: %s' % (progs[u[0]][0], u[1], (q_.err + q_.out)[-500:].decode(errors='replace')), {'x.as': progs[u[0]][2], 'x.java': open(os.path.join(d, 'aldorcode', u[2] + '.java'), 'rb').read()[:200000]})
        else: good.append(u)
    def runj(u):
        i, lv, name = u
        return u, run(['java', '-Xss8m', '-cp', CP + ':out', 'aldorcode.' + name], cwd=d, timeout=120)
    for (i, lv, name), p in pmap(runj, good, workers=8):
        sd, g, text, out, cls = progs[i]
        n += 1
        xc = 'ok' if p.rc == 0 else 'fail'
        files = {'x.as': text, 'case.txt': '%s %s\nexpected (%s):\n%s\njava (%s):\n%s\n%s' % (sd, lv, cls, out[-1500:], p.cause, p.out[-1500:].decode(errors='replace'), p.err[-800:].decode(errors='replace'))}
        if p.timeout: ctx.violation('hang:java', '%s %s' % (sd, lv), files); continue
        if p.out.decode(errors='replace') != out or xc != cls:
            ctx.violation('java-differs', '%s %s: java gives %r/%s, expected %r/%s' % (sd, lv, p.out[-150:], xc, out[-150:], cls), files)
    # ------------------------------------------------ builtin operations through the Java route (-Q0, so that the BCalls reach genjava)
    # Operand and result values are kept within 31 bits (the Java back end's machine integer is a Java int); operations on
    # Word, floats and arrays are left out (64-bit words; the Java runtime has no float dissembling to print exact bits).
    # Oracle: the Python definitions of checks/c04.py on each operation's domain.
    sys.path.insert(0, os.path.join(VERIF, 'checks'))
    import c04, itertools
    c04.MACHINE.update(c04.machine_exports(os.path.join(b.B, 'aldor', 'lib', 'libfoamlib', 'al', 'machine.as')))
    OKT = {'Bool', 'Char', 'SInt', 'BInt', 'HInt', 'Byte'}
    JNULL = {'BoolFalse': ['F'], 'BoolTrue': ['T'], 'CharSpace': ['32'], 'CharNewline': ['10'], 'CharTab': ['9'], 'Byte0': ['0'], 'Byte1': ['1'], 'HInt0': ['0'],
             'HInt1': ['1'], 'SInt0': ['0'], 'SInt1': ['1'], 'SIntMin': ['-2147483648'], 'SIntMax': ['2147483647'], 'BInt0': ['0'], 'BInt1': ['1'],
             'HIntMin': ['-32768'], 'HIntMax': ['32767'], 'ByteMin': ['0'], 'ByteMax': ['255']}      # constants, for a 32-bit machine integer
    jops = [o for o in c04.parse_table(os.path.join(b.S, 'foam.c')) if c04.in_scope(o) and set(o['args']) | set(o['rets']) <= OKT and (o['args'] or o['name'] in JNULL)]
    if ctx.tier == 'quick': jops = [o for k, o in enumerate(jops) if (k + ctx.seed) % 3 == 0]
    def small(t, v):
        if t in ('SInt',): return abs(v) < (1 << 30)
        if t == 'BInt': return abs(v) < (1 << 100)
        return True
    def fits(lines):
        for x in lines:
            if re.fullmatch(r'-?\d+', x) and abs(int(x)) >= (1 << 31) and len(x) < 12: return False
        return True
    jd = ctx.tmp('jbuiltin'); os.makedirs(os.path.join(jd, 'out'))
    jrng = random.Random('C12-builtins')
    def jwork(op):
        sets = [[v for v in c04.values(t, op, i, jrng, False) if small(t, v)] for i, t in enumerate(op['args'])]
        tuples = [((), JNULL[op['name']])] if not op['args'] else []
        for tup in (itertools.islice(itertools.product(*sets), 4000) if op['args'] else []):
            mdl = c04.model(op, tup)
            if mdl is None or mdl == 'TRAP': continue
            if op['name'] in ('SIntShiftUp', 'SIntShiftDn', 'SIntBit') and tup[1] >= 31: continue      # the Java machine integer has 32 bits
            if 'SInt' in op['rets'] and not all(re.fullmatch(r'-?\d+', x) is None or abs(int(x)) < (1 << 31) for x in mdl): continue
            tuples.append((tup, mdl))
        tuples = tuples[::max(1, len(tuples) // 60)][:60]
        if not tuples: return op, None, None, None
        nm = 'zqb' + op['name']
        open(os.path.join(jd, nm + '.as'), 'w').write(c04.render(op, [t for t, _ in tuples]))
        p1 = routes.aldor(b, ['-Q0', '-Mno-warnings', '-Jmain', '-Fjava', nm + '.as'], jd, timeout=120)
        if p1.rc != 0: return op, tuples, ('translate', p1), None
        p2 = run(['javac', '-nowarn', '-cp', CP, '-d', 'out', os.path.join('aldorcode', nm + '.java')], cwd=jd, timeout=300)
        if p2.rc != 0: return op, tuples, ('javac', p2), None
        p3 = run(['java', '-Xss8m', '-cp', CP + ':out', 'aldorcode.' + nm], cwd=jd, timeout=120)
        return op, tuples, None, p3
    nbops = 0; nbt = 0
    for op, tuples, err, p3 in pmap(jwork, jops, workers=8):
        if tuples is None: continue
        nbops += 1
        text = c04.render(op, [t for t, _ in tuples])
        if err:
            ctx.violation('java-builtin-fails:%s:%s' % (err[0], op['name']), '%s: %s' % (op['name'], (err[1].out + err[1].err)[-400:].decode(errors='replace')), {'x.as': text}); continue
        outs = c04.split_out(p3.out)
        for k, (tup, mdl) in enumerate(tuples):
            got = c04.normf(outs.get(k, ['<missing>']))
            n += 1; nbt += 1
            if got != mdl:
                if got in (['<missing>'], []) and p3.rc != 0:
                    ex = re.search(rb'Exception[^\n]*\n\s*at ([\w.]+)', p3.err)
                    ctx.violation('java-builtin-fails:run:%s' % op['name'], '%s%s: the Java program stops: %s' % (op['name'], tup, (p3.err[:300]).decode(errors='replace')), {'x.as': text})
                else:
                    ctx.violation('java-builtin-wrong:%s' % op['name'], '%s%s: Java prints %s, definition gives %s' % (op['name'], tup, got, mdl), {'x.as': text})
                break
    ctx.log('builtin sweep through Java: %d operations, %d tuples' % (nbops, nbt))
    # ------------------------------------------------ regression sources (once failing, fixed in the repository): Java output = interpreter output
    # plus one generated source: every ordered pair of binary integer / boolean builtins nested both ways on run-time operands
    # (operator precedence and associativity of the emitted Java expressions)
    IOPS = ['SIntPlus', 'SIntMinus', 'SIntTimes', 'SIntAnd', 'SIntOr', 'SIntXOr']; BOPS = ['BoolAnd', 'BoolOr', 'BoolEQ', 'BoolNE']
    nest = ['-- opts: -Q0', '#include "aldor"', '#include "aldorio"', 'import from Machine;', 'import {'] + \
           ['  %s: (SInt, SInt) -> SInt;' % o for o in IOPS] + ['  %s: (Bool, Bool) -> Bool;' % o for o in BOPS] + ['  BoolNot: (Bool) -> Bool;', '} from Builtin;',
            'import from MachineInteger, Boolean, List Boolean, List MachineInteger;',
            'for x in [6, 3, -5] repeat for y in [5, -12] repeat for z in [9, 2] repeat {']
    for A in IOPS:
        for B_ in IOPS:
            nest.append('\tstdout << (%s(%s(x::SInt, y::SInt), z::SInt)::MachineInteger) << " " << (%s(x::SInt, %s(y::SInt, z::SInt))::MachineInteger) << " ";' % (A, B_, A, B_))
    nest += ['\tstdout << newline;', '}', 'for a in [true, false] repeat for b in [true, false] repeat for c in [true, false] repeat {']
    for A in BOPS:
        for B_ in BOPS:
            nest.append('\tstdout << (%s(%s(a::Bool, b::Bool), c::Bool)::Boolean) << (%s(a::Bool, %s(b::Bool, c::Bool))::Boolean) << (%s(BoolNot(a::Bool), %s(BoolNot(b::Bool), c::Bool))::Boolean) << " ";' % (A, B_, A, B_, A, B_))
    nest += ['\tstdout << newline;', '}']
    kd = os.path.join(VERIF, 'known', 'C12')
    wsrc = [(fn, open(os.path.join(kd, fn)).read()) for fn in (sorted(os.listdir(kd)) if os.path.isdir(kd) else []) if fn.endswith('.as')] + [('nested-builtin-pairs.as', '\n'.join(nest) + '\n')]
    for fn, text in wsrc:
        mo = re.match(r'-- opts: (.*)\n', text); opts = mo.group(1).split() if mo else ['-Q1']
        wd = ctx.tmp('wit-' + fn[:-3]); os.makedirs(os.path.join(wd, 'out')); open(os.path.join(wd, 'zqw.as'), 'w').write(text)
        pi = routes.interp_src(b, wd, 'zqw.as', opts)
        pj1 = routes.aldor(b, opts + ['-Mno-warnings', '-Jmain', '-Fjava', 'zqw.as'], wd, timeout=120)
        pj2 = run(['javac', '-nowarn', '-cp', CP, '-d', 'out', 'aldorcode/zqw.java'], cwd=wd, timeout=300) if pj1.rc == 0 else pj1
        pj3 = run(['java', '-Xss8m', '-cp', CP + ':out', 'aldorcode.zqw'], cwd=wd, timeout=120) if pj2.rc == 0 else pj2
        n += 1
        if pj3.rc != 0 or routes.norm_out(pi, True) != pj3.out:
            ctx.violation('java-witness-differs:%s' % fn[:-3], 'interpreter prints %r, Java route %r (%s)' % (routes.norm_out(pi, True)[-200:], pj3.out[-200:], pj3.cause), {'x.as': text})
    if os.environ.get('VF_WRITE_CANARIES'):
        with open(cp_, 'w') as fh:
            for (i, lv, name) in supported:
                if progs[i][0].startswith('C12-pool'): fh.write('%s %s\n' % (progs[i][0], lv))
    ctx.sample({'program': progs[0][0], 'features': sorted(progs[0][1].feat), 'levels': LEVELS})
    ctx.assumptions += ['machine integers stay within 31 bits (Java int); programs contain no try/catch (Catch is not implemented in the Java generator)', 'unsupported = the compiler itself says "Java not implemented"; canaries keep that from becoming an escape hatch']
    inconc = None
    if n < 20: inconc = 'fewer than 20 programs ran under Java'
    ctx.finish(n, len(set(i for i, _, _ in good)), 'one evaluation = one generated class compiled by javac and run, compared with the reference evaluator; distinct = programs that ran',
               extra={'programs': len(progs), 'units_run': n, 'units_unsupported': unsupported, 'canaries': len(canaries), 'levels': LEVELS, 'disagreements_checked': len(ctx.viol) + len(ctx.known_hit)}, inconclusive=inconc)

main_guard(main)
