#!/usr/bin/env python3
"""C05  Saved intermediate forms and separate compilation lose nothing.
For each program and level: C / FOAM / Lisp generated from the source directly, from its .ao and from its .fm are
compared (apart from the recorded input file name and the portable re-expression of wide machine integers, which is
folded back by value); a re-saved .fm must be byte-identical; the program must behave the same when interpreted from
.ao and from .fm; a client must get identical output whether it imports a unit as .ao or as a member of an archive;
and a program split into a library unit and a client must behave like the one-unit program."""
import os, sys, random, copy
sys.path.insert(0, os.path.dirname(os.path.dirname(os.path.abspath(__file__))))
from vf.core import *
from vf import routes, progset, gen, sexp

CONSTPACK = '''#include "aldor"
#include "aldorio"
macro MI == MachineInteger;
import from MI, Integer, String, DoubleFloat, SingleFloat, Character;
stdout << (2147483647@MI) << " " << (2147483648@MI) << " " << (4294967296@MI) << " " << (1099511627779@MI) << " " << (9223372036854775807@MI) << " " << (-2147483649@MI) << newline;
stdout << (123456789012345678901234567890123456789012345678901234567890123456789012345678901234567890123456789012345678901234567890@Integer) << newline;
stdout << (-340282366920938463463374607431768211456@Integer) << newline;
stdout << "a string with __ underscore, _" quote, tab	and a long tail: abcdefghijklmnopqrstuvwxyzABCDEFGHIJKLMNOPQRSTUVWXYZ0123456789abcdefghijklmnopqrstuvwxyzABCDEFGHIJKLMNOPQRSTUVWXYZ0123456789" << newline;
stdout << "" << "|" << " " << "|" << newline;
stdout << (1.5@DoubleFloat) << " " << (0.1@DoubleFloat) << " " << (1.0e100@DoubleFloat) << " " << (2.5e-10@DoubleFloat) << " " << (0.0@DoubleFloat) << newline;
stdout << (1.5@SingleFloat) << " " << (0.25@SingleFloat) << newline;
stdout << (17352991799508992.0@DoubleFloat) << newline;
stdout << char "x" << newline;
'''

def split_program(g):
    """library unit with the category/domain pack, client with everything else (for programs that have the pack)"""
    r = gen.Render(g)
    full = r.text()
    if not g.consts: return None
    lines = full.split('\n')
    libl = [l for l in lines if l.startswith(('define ZqCat', 'ZqDomA:', 'ZqDomB:', 'ZqBox('))]
    if len(libl) != 4: return None
    lib = '#include "aldor"\nmacro MI == MachineInteger;\nimport from MI;\n' + '\n'.join(libl) + '\n'
    cl = []
    for l in lines:
        if l in libl: continue
        if l.startswith('import from ZqDomA'): cl.append('#library ZqLib "zqlib.ao"\nimport from ZqLib;')
        cl.append(l)
    return lib, '\n'.join(cl)

def main():
    ctx = Ctx('C05', 'translation_validation', variants=('plain',))
    b = ctx.b
    progs, disc = progset.pool(b, ctx, ctx.q(20, 200), ctx.q(16, 250), ctx.q(16, 200), 'C05')
    progs.append({'name': 'constpack', 'lib': 'aldor', 'text': CONSTPACK, 'inc': None, 'expected': None, 'g': None})
    LEVELS = ['-Q0', '-Q2', '-Q9']
    base = ctx.tmp('w')
    def rd(p):
        try: return open(p, 'rb').read()
        except OSError: return None
    def work(job):
        j, lv = job
        pr = progs[j]
        if lv == '-Q9' and pr['name'].startswith('corpus'): lv = '-Q3'
        d = os.path.join(base, '%d%s' % (j, lv)); progset.place(d, pr)
        inc = progset.inc(pr); lib = pr['lib']
        res = {'lv': lv}
        p = routes.aldor(b, [lv, '-Mno-warnings'] + inc + ['-Fao=x.ao', '-Fc=d.c', '-Ffm=d.fm', '-Flsp=d.lsp', 'x.as'], d, lib=lib, timeout=60)
        if p.rc != 0 or p.timeout: shutil.rmtree(d, ignore_errors=True); return job, None
        pa = routes.aldor(b, [lv, '-Mno-warnings', '-Fc=a.c', '-Ffm=a.fm', '-Flsp=a.lsp', 'x.ao'], d, lib=lib, timeout=60)
        os.makedirs(os.path.join(d, 'fm'))
        shutil.copy(os.path.join(d, 'd.fm'), os.path.join(d, 'fm', 'x.fm'))       # same unit name as the source
        pf = routes.aldor(b, [lv, '-Mno-warnings', '-Fc=../f.c', '-Ffm=../f2.fm', '-Flsp=../f.lsp', 'x.fm'], os.path.join(d, 'fm'), lib=lib, timeout=60)
        for f in ('d.c', 'd.fm', 'd.lsp', 'a.c', 'a.fm', 'a.lsp', 'f.c', 'f2.fm', 'f.lsp'): res[f] = rd(os.path.join(d, f))
        res['pa'] = pa; res['pf'] = pf
        # behaviour from the saved forms
        r_ao = routes.interp_ao(b, d, 'x.ao', lib=lib, timeout=60)
        r_fm = routes.aldor(b, ['-Mno-warnings', routes.LIBFLAG[lib], '-Ginterp', 'x.fm'], os.path.join(d, 'fm'), lib=lib, timeout=60)
        os.makedirs(d + '/s'); progset.place(d + '/s', pr)
        r_src = routes.interp_src(b, d + '/s', 'x.as', [lv] + inc, lib=lib, timeout=60)
        res['beh'] = {'src': (routes.norm_out(r_src, True), r_src.xclass), 'ao': (routes.norm_out(r_ao, True), r_ao.xclass), 'fm': (routes.norm_out(r_fm, True), r_fm.xclass, r_fm)}
        shutil.rmtree(d, ignore_errors=True)
        return job, res
    jobs = [(j, lv) for j in range(len(progs)) for lv in (LEVELS if ctx.tier == 'thorough' else [LEVELS[j % 3]])]
    n = 0; nwide = 0
    def norm_name(bts, kind):
        return re.sub(rb'from file "[^"]*"', b'from file "<src>"', bts or b'')
    for (j, lv0), res in pmap(work, jobs):
        pr = progs[j]
        if res is None: continue
        lv = res['lv']; who = pr['name'] if not pr['name'].startswith('gen:') else 'generated'
        files = {'x.as': pr['text'], 'case.txt': '%s %s' % (pr['name'], lv)}
        def viol(key, what, extra=None):
            f = dict(files)
            for k, v in (extra or {}).items(): f[k] = (v or b'')[:300000]
            ctx.violation(key, '%s %s: %s' % (pr['name'], lv, what), f)
        # --- from .ao
        n += 1
        if res['pa'].rc != 0 or res['a.c'] is None: viol('from-ao:no-output:%s' % who, 'generation from x.ao failed: ' + res['pa'].out[-300:].decode(errors='replace'))
        else:
            canon = lambda bts: sexp.canon_c(norm_name(bts, 'c').decode('latin-1'))
            dc, ac = canon(res['d.c']), canon(res['a.c'])
            if res['d.c'] != res['a.c'] and norm_name(res['d.c'], 'c') != norm_name(res['a.c'], 'c'): nwide += 1
            if dc != ac: viol('from-ao:c-differs:%s' % who, 'C from .ao differs from C from source', {'d.c': res['d.c'], 'a.c': res['a.c']})
            try:
                if sexp.fold_fm(sexp.parse(res['d.fm'].decode('latin-1'))) != sexp.fold_fm(sexp.parse(res['a.fm'].decode('latin-1'))):
                    viol('from-ao:fm-differs:%s' % who, 'FOAM from .ao differs from FOAM from source', {'d.fm': res['d.fm'], 'a.fm': res['a.fm']})
                dl = sexp.fold_lisp(sexp.parse(norm_name(res['d.lsp'], 'l').decode('latin-1'))); al = sexp.fold_lisp(sexp.parse(norm_name(res['a.lsp'], 'l').decode('latin-1')))
                if dl != al: viol('from-ao:lisp-differs:%s' % who, 'Lisp from .ao differs', {'d.lsp': res['d.lsp'], 'a.lsp': res['a.lsp']})
            except ValueError as e: viol('unparsable-sexpr:%s' % who, str(e))
        # --- from .fm
        n += 1
        if res['pf'].rc != 0 or res['f2.fm'] is None:
            msg = res['pf'].out[-400:].decode(errors='replace')
            mb = re.search(r'Bug: ([^\n]{0,50})', msg)
            key = 'from-fm:unreadable:float-without-fraction-digits' if 'Meaningless potential number' in msg else ('from-fm:compiler-bug:' + re.sub(r'\d+ in file', 'N in file', mb.group(1)) if mb else 'from-fm:no-output:%s' % who)
            viol(key, 'reading the saved .fm failed: ' + msg, {'d.fm': res['d.fm']})
        else:
            if res['f2.fm'] != res['d.fm']: viol('from-fm:resave-differs:%s' % who, 're-saved .fm is not byte-identical', {'d.fm': res['d.fm'], 'f2.fm': res['f2.fm']})
            canon = lambda bts: sexp.canon_c(norm_name(bts, 'c').decode('latin-1'))
            dc, fc = canon(res['d.c']), canon(res['f.c'])
            if dc != fc:
                # recorded finding: C from FOAM text lacks pointer casts; recognised only if deleting every (Fi...) cast (and the
                # parentheses and blanks around it) makes the two token streams equal
                strip = lambda t: re.sub(r'[()\s]', '', re.sub(r'\(Fi\w+\s*\**\)', '', t))
                if strip(dc) == strip(fc): viol('from-fm:c-differs:casts-only', 'C generated from the .fm lacks (Fi...) casts present in C from source')
                else: viol('from-fm:c-differs:%s' % who, 'C from .fm differs from C from source beyond casts', {'d.c': res['d.c'], 'f.c': res['f.c']})
            try:
                if sexp.parse(norm_name(res['d.lsp'], 'l').decode('latin-1')) != sexp.parse(norm_name(res['f.lsp'], 'l').decode('latin-1')):
                    viol('from-fm:lisp-differs:%s' % who, 'Lisp from .fm differs', {'d.lsp': res['d.lsp'], 'f.lsp': res['f.lsp']})
            except ValueError as e: viol('unparsable-sexpr:%s' % who, str(e))
        # --- behaviour
        n += 1
        bh = res['beh']
        def cls(x): return 'ok' if x == 'ok' else 'fail'
        if bh['ao'][0] != bh['src'][0] or cls(bh['ao'][1]) != cls(bh['src'][1]): viol('behaviour:ao-differs:%s' % who, 'interpreting the saved .ao gives %r/%s, the source %r/%s' % (bh['ao'][0][-100:], bh['ao'][1], bh['src'][0][-100:], bh['src'][1]))
        if res['pf'].rc == 0 and (bh['fm'][0] != bh['src'][0] or cls(bh['fm'][1]) != cls(bh['src'][1])):
            viol('behaviour:fm-differs:%s' % who, 'interpreting the saved .fm gives %r/%s, the source %r/%s' % (bh['fm'][0][-160:], bh['fm'][1], bh['src'][0][-100:], bh['src'][1]))
    # ------------------------------------------------ split compilation and archives
    gprogs = [p for p in progs if p['g'] is not None and p['g'].consts]
    def swork(k):
        k, res = swork1(k, ['-Q0', '-Q2', '-Q9'][k % 3])
        if res is not None and res['lv'] == '-Q9':
            exp = gprogs[k]['expected'][0].encode()
            if res['pl'].rc != 0 or res.get('ao', (None,))[0] != exp or res.get('al', (None,))[0] != exp or (res.get('c') and res['c'][0] != exp):
                # -Q9 does not terminate or dies on some programs (C02's recorded finding): judge this program at -Q3 instead
                return swork1(k, '-Q3', tag='b')
        return k, res
    def swork1(k, lv, tag=''):
        pr = gprogs[k]; sp = split_program(pr['g'])
        if not sp: return k, None
        lib, cl = sp
        d = os.path.join(base, 'split%d%s' % (k, tag)); os.makedirs(d)
        open(d + '/zqlib.as', 'w').write(lib); open(d + '/client.as', 'w').write(cl)
        pl = routes.aldor(b, [lv, '-Mno-warnings', '-Fao', 'zqlib.as'], d, timeout=60)
        res = {'lv': lv, 'pl': pl}
        if pl.rc == 0:
            r1 = routes.interp_src(b, d, 'client.as', [lv], timeout=60)
            res['ao'] = (routes.norm_out(r1, True), r1.xclass, r1)
            pc, g_, exe = routes.compile_c(b, d, 'client.as', [lv], timeout=60)
            # the C route needs the library unit's C as well
            res['c'] = None
            plc = routes.aldor(b, [lv, '-Mno-warnings', '-Fc', 'zqlib.as'], d, timeout=120)
            if pc.rc == 0 and plc.rc == 0:
                gg = run(['gcc', '-w', '-O0', '-I' + b.S, 'client.c', 'client-aldormain.c', 'zqlib.c'] + b.link_libs('aldor') + ['-o', d + '/cl.exe'], cwd=d, timeout=300)
                if gg.rc == 0:
                    rr = routes.run_exe(d + '/cl.exe', d); res['c'] = (rr.out, rr.xclass)
                else: res['c'] = (None, 'link-failed: ' + gg.err[-300:].decode(errors='replace'))
            # archive member instead of the .ao
            run(['ar', 'cr', 'libzqlib.al', 'zqlib.ao'], cwd=d)
            open(d + '/client2.as', 'w').write(cl.replace('#library ZqLib "zqlib.ao"', '#library ZqLib "libzqlib.al"'))
            os.rename(d + '/zqlib.ao', d + '/hidden.ao')
            r2 = routes.interp_src(b, d, 'client2.as', [lv], timeout=60)
            res['al'] = (routes.norm_out(r2, True), r2.xclass, r2)
        shutil.rmtree(d, ignore_errors=True)
        return k, res
    nsplit = 0
    for k, res in pmap(swork, range(len(gprogs))):
        if res is None: continue
        pr = gprogs[k]; out, cls_ = pr['expected']
        files = {'x.as': pr['text']}
        n += 1; nsplit += 1
        if res['pl'].rc != 0: ctx.violation('split:library-unit-rejected', '%s %s: %s' % (pr['name'], res['lv'], res['pl'].out[-300:].decode(errors='replace')), files); continue
        exp = out.encode()
        def okc(x): return ('ok' if x == 'ok' else 'fail') == cls_
        if res['ao'][0] != exp or not okc(res['ao'][1]):
            ctx.violation('split:behaviour-differs', '%s %s split into library unit + client: %r/%s expected %r/%s\n%s' % (pr['name'], res['lv'], res['ao'][0][-150:], res['ao'][1], exp[-150:], cls_, res['ao'][2].err[-300:]), files)
        if res['al'][0] != res['ao'][0] or res['al'][1] != res['ao'][1]:
            ctx.violation('archive:member-differs-from-ao', '%s %s: importing the unit from an archive gives %r/%s, from the .ao %r/%s' % (pr['name'], res['lv'], res['al'][0][-150:], res['al'][1], res['ao'][0][-150:], res['ao'][1]), files)
        if res['c'] is not None and (res['c'][0] != exp or not okc(res['c'][1])):
            ctx.violation('split:c-behaviour-differs', '%s %s split, through C: %r/%s expected %r/%s' % (pr['name'], res['lv'], (res['c'][0] or b'')[-150:], res['c'][1], exp[-150:], cls_), files)
    ctx.sample({'program': progs[0]['name'], 'forms': ['source->c/fm/lsp', '.ao->c/fm/lsp', '.fm->c/fm/lsp', 'interp .ao', 'interp .fm', 'library unit + client', 'archive member']})
    ctx.assumptions += ['the recorded input file name is masked; wide machine integers re-expressed as (1 << 31 | 0) are folded back by value before comparison; everything else must be identical',
                        'C generated from FOAM text is known to lack pointer casts (recorded finding, recognised only when stripping every (Fi...) cast makes the files equal)']
    ctx.finish(n, len(progs), 'one evaluation = one comparison of a saved-form product with the direct product (or of split/archive behaviour with the one-unit expectation); distinct = programs',
               extra={'programs': len(progs), 'split_programs': nsplit, 'files_with_wide_integer_reexpression': nwide, 'levels': LEVELS, 'disagreements_checked': len(ctx.viol) + len(ctx.known_hit)}, min_eval=50)

main_guard(main)
