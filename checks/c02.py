#!/usr/bin/env python3
"""C02  Optimisation settings never change program behaviour.
Every program (generated family, deterministic runnable corpus) is compiled under many optimisation configurations:
levels -Q0..-Q9, -O, each pass alone on top of -Q0, each pass removed from -Q9, random subsets; output and exit class
on the interp-ao route (and through C for a third of the configurations) must equal those under -Q0.  The -Ffm text of
each configuration is compared with the -Q0 text to tally which switches really rewrote the program."""
import os, sys, random
sys.path.insert(0, os.path.dirname(os.path.dirname(os.path.abspath(__file__))))
from vf.core import *
from vf import routes, progset

PASSES = ['inline', 'inline-all', 'cfold', 'ffold', 'hfold', 'deadvar', 'dassign', 'peep', 'cprop', 'cse', 'env', 'emerge', 'emerge-rr', 'flow', 'cast', 'cc', 'killp']
# del-assert and cc-fnonstd are documented semantic switches (assertions not checked / IEEE compliance dropped): generated
# programs contain no assertions and no float output, so they are exercised like the others but cannot change behaviour legitimately here.
SEMANTIC = ['del-assert', 'cc-fnonstd']

def configs(rng, tier):
    cs = [('-Q%d' % i, ['-Q%d' % i]) for i in range(1, 10)] + [('-O', ['-O'])]
    for p in PASSES + SEMANTIC: cs.append(('Q0+' + p, ['-Q0', '-Q' + p]))
    for p in PASSES: cs.append(('Q9-' + p, ['-Q9', '-Qno-' + p]))
    for k in range(6 if tier == 'quick' else 40):
        sub = sorted(rng.sample(PASSES, rng.randint(2, 8)))
        cs.append(('Q0+{' + ','.join(sub) + '}', ['-Q0'] + ['-Q' + p for p in sub]))
    cs.append(('Q2+inline-limit', ['-Q2', '-Qinline-limit=100000', '-Qinline-size=100000']))
    cs.append(('Q2+inline-limit0', ['-Q2', '-Qinline-limit=1']))
    return cs

def main():
    ctx = Ctx('C02', 'translation_validation', variants=('plain',))
    b = ctx.b; rng = ctx.rng
    progs, disc = progset.pool(b, ctx, ctx.q(25, 200), ctx.q(20, 300), ctx.q(40, 400), 'C02')
    # opt-in generator families (see DESIGN, C01): shapes the shared pools do not contain
    nopt = ctx.q(4, 40)
    for fam, extra in (('fluid', ('fluids',)), ('tagged', ('taggedunion', 'unions')), ('counter', ('counters', 'closures'))):
        progs += progset.generated('C02-%s-pool' % fam, nopt // 2, extra=extra)[0] + progset.generated('C02-%s-fresh-%d' % (fam, ctx.seed), nopt - nopt // 2, extra=extra)[0]
    allcs = configs(random.Random('C02-configs-%d' % ctx.seed), ctx.tier)
    base = ctx.tmp('w')
    def run_cfg(j, tag, opts, route):
        d = os.path.join(base, '%d-%s-%s' % (j, re.sub(r'[^A-Za-z0-9]+', '_', tag), route))
        pr = progs[j]
        extra = ['-Ffm'] if route == 'interp-ao' else []
        o, xc, p = progset.run_route(b, d, pr, route, list(opts) + extra, timeout=(45 if ctx.tier == 'quick' else 120))
        fm = None
        if route == 'interp-ao':
            try: fm = sha(open(os.path.join(d, 'x.fm'), 'rb').read())
            except OSError: pass
        shutil.rmtree(d, ignore_errors=True)
        return o, xc, p, fm
    def work(j):
        pr = progs[j]
        r = random.Random('%s/%d' % (pr['name'], ctx.seed))
        kind = pr['name'].split(':')[0]
        # corpus programs: levels and a few single passes; generated programs: a broad sample of all configurations
        if ctx.tier == 'quick':
            cs = [c for c in allcs if c[0] in ('-Q1', '-Q2', '-Q3', '-Q9', '-O')] + r.sample(allcs, 8 if kind == 'gen' else 4)
        else:
            cs = allcs if kind == 'gen' else [c for c in allcs if c[0].startswith('-Q') or c[0] == '-O'] + r.sample(allcs, 12)
        ref = {}
        ref['interp-ao'] = run_cfg(j, 'Q0', ['-Q0'], 'interp-ao')
        out = []
        seen = set()
        # -Q9 lifts the inlining limit; where it does not terminate (or dies) for a program, the Q9-minus-one-pass
        # configurations of that program are not run as well: same recorded finding, and each would cost a full watchdog
        cs = sorted(cs, key=lambda c: 0 if c[0] == '-Q9' else 1)
        q9bad = False
        for tag, opts in cs:
            if tag in seen: continue
            seen.add(tag)
            if q9bad and tag.startswith('Q9-'): continue
            routes_ = ['interp-ao'] + (['c'] if (hash(tag) + j) % 3 == 0 or tag in ('Q0+cc', '-Q3') else [])
            for rt in routes_:
                if rt not in ref: ref[rt] = run_cfg(j, 'Q0', ['-Q0'], rt)
                rr_ = run_cfg(j, tag, opts, rt)
                out.append((tag, rt, rr_))
                if tag == '-Q9' and ('watchdog' in rr_[1] or rr_[1].startswith('compile-')): q9bad = True
        return j, ref, out
    n = 0; fired = {}; tried = {}
    def cls(x): return 'ok' if x == 'ok' else ('fail' if x in ('fail', 'signal') else x)
    for j, ref, out in pmap(work, range(len(progs))):
        pr = progs[j]; kind = pr['name'].split(':')[0]
        for tag, rt, (o, xc, p, fm) in out:
            n += 1
            ro, rxc, rp, rfm = ref[rt]
            ctag = re.sub(r'\{.*\}', '{subset}', tag)
            fam = 'Q9-family' if (tag == '-Q9' or tag.startswith('Q9-')) else ctag
            if rt == 'interp-ao' and fm and rfm:
                tried[ctag] = tried.get(ctag, 0) + 1
                if fm != rfm: fired[ctag] = fired.get(ctag, 0) + 1
            files = {'x.as': pr['text'], 'case.txt': '%s  config %s (%s) route %s\n--- reference -Q0: %s\n%s\n--- observed: %s\n%s\n%s' % (
                pr['name'], tag, ' '.join(dict(allcs).get(tag, [])), rt, rxc, (ro or b'')[-1500:].decode(errors='replace'), xc, (o or b'')[-1500:].decode(errors='replace'), p.err[-600:].decode(errors='replace'))}
            who = pr['name'] if kind == 'corpus' else 'generated'
            if 'watchdog' in xc and 'watchdog' not in rxc:
                # the experimental kill-pointers pass (off at every level) produces wrong code: a run that does not end is the same finding as one that faults
                if 'killp' in tag and tag.startswith('Q0+'): ctx.violation('behaviour-changed:killp-experimental', '%s under %s on %s does not terminate' % (pr['name'], tag, rt), files); continue
                ctx.violation('hang:%s:%s' % (fam, who), '%s under %s on %s does not terminate' % (pr['name'], tag, rt), files); continue
            if rxc.startswith('compile-') or 'watchdog' in rxc: continue       # no reference behaviour
            if xc.startswith('compile-'):
                if b'Program fault (arithmetic exception)' in (p.out + p.err):
                    # recorded finding: the allocator dies with SIGFPE in mxmemMerge once the inliner has blown a program up to a heap of ~770 MB
                    ctx.violation('no-build:allocator-sigfpe-at-huge-heap', '%s under %s: %s' % (pr['name'], tag, (p.out + p.err)[-300:].decode(errors='replace')), files); continue
                ctx.violation('no-build:%s:%s' % (fam, who), '%s under %s: %s' % (pr['name'], tag, (p.out + p.err)[-300:].decode(errors='replace')), files); continue
            rf = rxc == 'signal' or bool(fault_text(rp) and 'Unhandled' not in fault_text(rp))
            of = xc == 'signal' or bool(fault_text(p) and 'Unhandled' not in fault_text(p))
            if rf and of: continue
            if o != ro or cls(xc) != cls(rxc):
                key = 'behaviour-changed:killp-experimental' if 'killp' in tag and (tag.startswith('Q0+')) else 'behaviour-changed:%s:%s' % (ctag, who)
                ctx.violation(key, '%s under %s on %s: -Q0 gives %r/%s, %s gives %r/%s' % (pr['name'], tag, rt, (ro or b'')[-120:], rxc, tag, (o or b'')[-120:], xc), files)
    never = sorted(t for t in tried if not fired.get(t) and not t.startswith(('Q0+cc', 'Q0+killp', 'Q0+del-assert', 'Q9-')))
    ctx.sample({'program': progs[0]['name'], 'configs': [c[0] for c in allcs[:12]]})
    ctx.assumptions += ['-Q0 behaviour on the same route is the reference; del-assert / cc-fnonstd are documented semantic switches and the programs contain neither assertions nor float output',
                        'a switch counts as fired when the -Ffm text differs from the -Q0 text']
    inconc = None
    foam_level = [t for t in tried if t.startswith('Q0+') and t[3:] in PASSES and t[3:] not in ('cc', 'killp', 'emerge-rr')]
    if foam_level and sum(1 for t in foam_level if not fired.get(t)) * 4 > len(foam_level) * 3: inconc = 'most FOAM-level switches never changed the .fm'
    ctx.finish(n, len(progs), 'one evaluation = one (program, configuration, route) run compared with the same program under -Q0; distinct = programs',
               extra={'programs': len(progs), 'configurations': len(allcs), 'fm_changed_vs_Q0': fired, 'fm_compared': tried, 'never_fired': never, 'discarded_by_discipline': disc,
                      'disagreements_checked': len(ctx.viol) + len(ctx.known_hit)}, inconclusive=inconc, min_eval=200)

main_guard(main)
