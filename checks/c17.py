#!/usr/bin/env python3
"""C17  Damaged library files are refused, never silently used.
A fixed set of tiny units is compiled by the snapshot's compiler to .ao / .fm / .al; each file is damaged by
truncation at every offset and by single-byte substitutions at every offset (quick: a VERIF_SEED-chosen 1/24 of
the enumeration), and every damaged file is used in real compilations (C from the saved form, import from a
client and interpret, interpret the saved program) by the plain build (real allocator; fault sites through the
backtrace hook) and by the ASan+bounds build.
Allowed: same outputs as with the intact file and exit 0, or exit != 0 with a diagnostic.  Forbidden: exit 0 with
different/missing outputs, hang, fault / sanitizer report."""
import os, sys, struct
sys.path.insert(0, os.path.dirname(os.path.dirname(os.path.abspath(__file__))))
from vf.core import *
from vf import routes

UNITS = {'u': '''#include "foamlib"
Cnt: with { bump: SingleInteger -> SingleInteger; tag: () -> String } == add {
	bump(n: SingleInteger): SingleInteger == n + 41;
	tag(): String == "unit-u";
}
''', 'm': '''#include "foamlib"
import from SingleInteger, String;
f(n: SingleInteger): SingleInteger == if n < 2 then 1 else n * f(n - 1);
print << f(5) << " main-m" << newline;
'''}
CLIENT = '''#include "foamlib"
#library U "%s"
import from U;
import from Cnt, SingleInteger, String;
print << bump(1) << " " << tag() << newline;
'''
SECT = ['Syme', 'Foam', 'FoamSyme', 'Pos', 'PosTbl', 'Name', 'Kind', 'File', 'Lazy', 'Type', 'Inline', 'Twins', 'Extend', 'Doc', 'Foreign', 'Id', 'Macros']
HDR = 2 + 4 + 4 + 2 + len(SECT) * 9
DIAG = re.compile(rb'\((Fatal )?Error\)|\(Error\)')

def ao_regions(data):
    """offset -> region name for an intact .ao (header, or section name)"""
    regs = []
    if len(data) < HDR: return lambda off: 'header'
    nsect = struct.unpack_from('<H', data, 10)[0]
    for i in range(min(nsect, len(SECT))):
        name, off, ln = struct.unpack_from('<BII', data, 12 + i * 9)
        regs.append((off, off + ln, SECT[name] if name < len(SECT) else 'sect%d' % name))
    def f(off):
        if 12 <= off < HDR and (off - 12) % 9 == 0: return 'sect-name'     # which section an entry describes: payload-like, no structure to check
        if off < HDR: return 'header'
        for a, b_, n in regs:
            if a <= off < b_: return n
        return 'tail'
    return f

def main():
    ctx = Ctx('C17', 'fault_enumeration', variants=('plain', 'asan'))
    b = ctx.b
    FL = b.flags('foamlib')
    base = ctx.tmp('base')
    for n, t in UNITS.items(): open(os.path.join(base, n + '.as'), 'w').write(t)
    for n in UNITS:
        p = routes.aldor(b, ['-Fao', '-Ffm', '-Mno-warnings', n + '.as'], base, lib='foamlib')
        if p.rc != 0: raise Inconclusive('cannot build the intact unit %s: %s' % (n, p.out[-400:]))
    run(['ar', 'cr', 'libuu.al', 'u.ao'], cwd=base)
    open(os.path.join(base, 'c_ao.as'), 'w').write(CLIENT % 'u.ao')
    open(os.path.join(base, 'c_al.as'), 'w').write(CLIENT % 'libuu.al')
    intact = {f: open(os.path.join(base, f), 'rb').read() for f in ('u.ao', 'u.fm', 'm.ao', 'm.fm', 'libuu.al')}
    # uses: (name, damaged file, argv, produced file or None (stdout is the output), extra files needed)
    USES = [('c-from-ao', 'u.ao', ['-Fc=out.c', '-Mno-warnings', 'u.ao'], 'out.c', []),
            ('client-imports-ao', 'u.ao', ['-Mno-warnings', '-lfoamlib', '-Ginterp', 'c_ao.as'], None, ['c_ao.as']),
            ('interp-ao', 'm.ao', ['-Mno-warnings', '-lfoamlib', '-Ginterp', 'm.ao'], None, []),
            ('c-from-fm', 'u.fm', ['-Fc=out.c', '-Mno-warnings', 'u.fm'], 'out.c', []),
            ('interp-fm', 'm.fm', ['-Mno-warnings', '-lfoamlib', '-Ginterp', 'm.fm'], None, []),
            ('client-imports-al', 'libuu.al', ['-Mno-warnings', '-lfoamlib', '-Ginterp', 'c_al.as'], None, ['c_al.as'])]
    def do_use(d, use, variant):
        name, fn, argv, outf, extra = use
        env = {'ALDOR_VERIF_BT': '1'} if variant == 'plain' else None
        p = routes.aldor(b, argv, d, lib='foamlib', variant=variant, timeout=40, env=env, noaslr=True)
        if p.timeout: p = routes.aldor(b, argv, d, lib='foamlib', variant=variant, timeout=150, env=env, noaslr=True)
        out = None
        if outf:
            try: out = open(os.path.join(d, outf), 'rb').read()
            except OSError: out = None
        else: out = p.out
        return p, out
    # reference outcomes
    ref = {}
    for use in USES:
        for v in ('plain', 'asan'):
            d = ctx.tmp('ref-%s-%s' % (use[0], v))
            for f in [use[1]] + use[4]: shutil.copy(os.path.join(base, f), d)
            p, out = do_use(d, use, v)
            if p.rc != 0 or out is None or fault_text(p):
                ctx.violation('intact-file-rejected:%s:%s' % (use[0], v), '%s: %s\n%s' % (p.cause, fault_text(p), (p.out + p.err)[-600:].decode(errors='replace')), files={'file': intact[use[1]]})
            ref[(use[0], v)] = out
    # enumeration of damage
    cases = []
    DIV = 24
    pick = ctx.seed % DIV
    for use in USES:
        data = intact[use[1]]
        kind = use[1].split('.')[-1]
        strict_upto = HDR if kind == 'ao' else (8 + 60 + HDR if kind == 'al' else 0)
        k = 0
        for off in range(len(data)):
            k += 1
            if ctx.tier == 'thorough' or (k % DIV == pick) or off < 16: cases.append((use, 'trunc', off, None))
        for off in range(len(data)):
            subs = [data[off] ^ 1, data[off] ^ 0x80, data[off] ^ 0xff, 0]
            if off < strict_upto and kind == 'ao' and ctx.tier == 'thorough': subs = [x for x in range(256) if x != data[off]]
            for sv in sorted(set(subs)):
                if sv == data[off]: continue
                k += 1
                full = ctx.tier == 'thorough' and (sv == data[off] ^ 0xff or off < strict_upto or k % 4 == pick % 4)
                if full or (k % DIV == pick) or (off < strict_upto and kind == 'ao' and k % 3 == pick % 3): cases.append((use, 'subst', off, sv))
    ctx.log('%d damaged files x 2 builds' % len(cases))
    regions = {f: ao_regions(intact[f]) for f in intact if f.endswith('.ao')}
    def region_of(fn, off):
        if fn.endswith('.ao'): return regions[fn](off)
        if fn.endswith('.al'):
            if off < 8: return 'ar-magic'
            if off < 68: return 'ar-member-header'
            r = regions['u.ao'](off - 68)
            return 'member:' + r
        return 'text'
    wbase = ctx.tmp('w')
    def work(ci):
        use, how, off, sv = cases[ci]
        data = intact[use[1]]
        dmg = data[:off] if how == 'trunc' else data[:off] + bytes([sv]) + data[off + 1:]
        res = []
        for v in ('plain', 'asan'):
            d = os.path.join(wbase, '%d-%s' % (ci, v)); os.makedirs(d)
            for f in use[4]: shutil.copy(os.path.join(base, f), d)
            with open(os.path.join(d, use[1]), 'wb') as fh: fh.write(dmg)
            p, out = do_use(d, use, v)
            res.append((v, p, out))
            shutil.rmtree(d, ignore_errors=True)
        return ci, res
    n = 0; tall = {}
    for ci, res in pmap(work, range(len(cases))):
        use, how, off, sv = cases[ci]
        fn = use[1]; kind = fn.split('.')[-1]
        reg = region_of(fn, off)
        strict = reg in ('header', 'ar-magic', 'ar-member-header', 'member:header')
        if reg == 'member:sect-name': strict = False
        for v, p, out in res:
            n += 1
            blob = p.out + p.err
            desc = '%s %s at offset %d%s of %s (region %s), use %s, %s build' % (how, '' if sv is None else 'byte=0x%02x' % sv, off, '', fn, reg, use[0], v)
            dmgdata = intact[fn][:off] if how == 'trunc' else intact[fn][:off] + bytes([sv]) + intact[fn][off + 1:]
            files = {'damaged-' + fn: dmgdata, 'case.txt': desc + '\n' + ' '.join(use[2]) + '\n' + blob[-3000:].decode(errors='replace')}
            def bump(c): tall[c] = tall.get(c, 0) + 1
            if p.timeout:
                bump('hang')
                if how == 'subst' and not strict and use[0].startswith('interp'):
                    # a substituted payload byte can turn the saved program into another valid program that does not terminate
                    ctx.violation('nochecksum-nontermination:%s' % kind, desc + ': the interpreted program no longer terminates', files)
                else: ctx.violation('hang:%s:%s:%s' % (kind, how, use[0]), desc, files)
                continue
            if b'hard rss limit exhausted' in blob or b'allocator is out of memory' in blob or b'requested allocation size' in blob:
                bump('asan-memory-cap'); continue
            sig = san_signature(p)
            ft = fault_text(p)
            if sig or ft:
                site = sig[1] if sig else fault_site(b, p, v)
                fkind = sig[0] if sig else 'fault'
                bump('fault')
                files['case.txt'] = 'fault kind %s at %s\n' % (fkind, site) + files['case.txt']
                if strict: ctx.violation('header-region:%s:%s:%s' % (kind, fkind, site), desc, files)
                else: ctx.violation('fault:%s:%s:%s' % (kind, use[0], 'truncation' if how == 'trunc' else 'payload-substitution'), desc + ' [%s at %s]' % (fkind, site), files)
                continue
            if p.rc != 0:
                if DIAG.search(blob): bump('refused')
                elif how == 'subst' and not strict and (use[0].startswith('interp') or use[0].startswith('client')):
                    # the (possibly different but well-formed) program was run and ended with a failure status of its own
                    bump('silent-different'); ctx.violation('nochecksum:%s' % kind, desc + ': the interpreted program ends with a failure status (the format carries no checksum)', files)
                else:
                    bump('nonzero-no-diagnostic'); ctx.violation('nonzero-without-diagnostic:%s:%s' % (kind, use[0]), desc, files)
                continue
            # exit 0
            if out is not None and out == ref.get((use[0], v)):
                bump('same-as-intact'); continue
            bump('silent-different')
            if strict or how == 'trunc':
                ctx.violation('silently-used:%s:%s:%s' % (kind, how, 'header' if strict else reg), desc + ': exit 0 with different or missing output', files)
            else:
                ctx.violation('nochecksum:%s' % kind, desc + ': exit 0 with different output (the format carries no checksum)', files)
    ctx.sample({'file': 'u.ao', 'size': len(intact['u.ao']), 'damage': 'truncate at offset 200', 'use': 'aldor -Fc=out.c u.ao'})
    ctx.sample({'sections_of_u.ao': sorted(set(regions['u.ao'](o) for o in range(len(intact['u.ao']))))})
    ctx.assumptions += ['the damaged-input set is a fixed enumeration over files produced by the snapshot\'s own compiler from committed sources; quick runs a VERIF_SEED-chosen 1/24 of it',
                        'header and section-table bytes (and archive magic/member header) are strict: no known finding is accepted there',
                        'payload substitutions accepted silently are matched against nochecksum:<kind>:<section> entries; truncations accepted silently are always violations']
    ctx.finish(n, len(set((c[0][0], c[1], region_of(c[0][1], c[2])) for c in cases)),
               'one evaluation = one damaged file used in one compilation on one build; distinct = (use, damage kind, file region) classes',
               extra={'damaged_files': len(cases), 'outcomes': tall, 'file_sizes': {k: len(v) for k, v in intact.items()}, 'exhaustive': ctx.tier == 'thorough', 'header_bytes': HDR},
               min_eval=1000)

main_guard(main)
