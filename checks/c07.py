#!/usr/bin/env python3
"""C07  The compiler is total on arbitrary source text and reports honestly.
Inputs: random bytes, token-level mutants of corpus and template sources, stress shapes.  Each is compiled by
the ASan+bounds build (malloc store) in its own process; a sample also by the plain build with the real collector.
Oracle: terminates; no signal / fault / bug / assertion text / sanitizer report; exit status non-zero iff an error
line was printed; inputs the mutator knows to be invalid yield at least one diagnostic."""
import os, sys
sys.path.insert(0, os.path.dirname(os.path.dirname(os.path.abspath(__file__))))
from vf.core import *
from vf import routes, corpus, mutate
import random

TEMPLATES = ['''#include "aldor"
#include "aldorio"
import from MachineInteger, Integer, List MachineInteger;
f(n: Integer): Integer == if n = 0 then 1 else n * f(n-1);
l: List MachineInteger := [i for i: MachineInteger in 1..10];
stdout << f(30) << newline;
stdout << reverse l << newline;
''', '''#include "aldor"
#include "aldorio"
define Shape: Category == with { area: % -> MachineInteger; name: % -> String; default name(s: %): String == "shape" };
Sq: Shape with { sq: MachineInteger -> % } == add {
	Rep == MachineInteger; import from Rep;
	sq(n: MachineInteger): % == per n;
	area(s: %): MachineInteger == rep(s) * rep(s);
}
import from Sq, MachineInteger, String;
stdout << area(sq 4) << " " << name(sq 2) << newline;
g(n: MachineInteger): Generator MachineInteger == generate { for i in 1..n repeat yield i*i };
for x in g 5 repeat { if x = 9 then iterate; stdout << x << newline }
r: Record(a: MachineInteger, b: String) := [1, "x"];
u: Union(i: MachineInteger, s: String) := [3];
if u case i then stdout << u.i << newline;
try { throw SyntaxException } catch E in { true => stdout << "caught" << newline } finally stdout << "done" << newline;
''', '''#pile
#include "aldor"
#include "aldorio"
macro MI == MachineInteger
import from MI
fib(n: MI): MI ==
	n < 2 => n
	fib(n-1) + fib(n-2)
h(f: MI -> MI, x: MI): MI == f f x
stdout << fib 10 << newline
stdout << h((y: MI): MI +-> y + 1, 3) << newline
''']

ERR_RE = re.compile(rb'\((Fatal )?Error\)')

def main():
    ctx = Ctx('C07', 'exploration', variants=('plain', 'asan'))
    b = ctx.b; rng = ctx.rng
    N = int(os.environ.get("C07_N", 0)) or ctx.q(20000, 400000)
    # The main input sequence is a fixed function of a committed generator seed (quick is a prefix of thorough), so that
    # the set of fault sites it can reach on the unchanged tree is finite and listed; VERIF_SEED drives an extra slice
    # of input classes that are clean on the unchanged tree.
    frng = random.Random('C07-fixed-sequence-1')
    srcs = corpus.sources(b)
    names = sorted(s_['name'] + '/' + s_['lib'] for s_ in srcs)
    byname = {s_['name'] + '/' + s_['lib']: s_ for s_ in srcs}
    pool = []
    for nm in frng.sample(names, min(len(names), 300)):
        s_ = byname[nm]
        try: t = open(s_['path'], encoding='latin-1').read()
        except OSError: continue
        if len(t) < 30000: pool.append((s_['name'], s_['lib'], t))
    for i, t in enumerate(TEMPLATES): pool.append(('template%d' % i, 'aldor', t))
    cases = []
    for i in range(N):
        r = frng.random()
        if r < 0.10:
            cases.append((i, 'bytes', 'aldor', mutate.random_bytes(frng), 'random-bytes', False))
        elif r < 0.18:
            data, d, inv = mutate.stress(frng)
            cases.append((i, 'stress', 'aldor', data, d, inv))
        else:
            name, lib, text = frng.choice(pool)
            m, d, inv = mutate.mutate_tokens(text, frng)
            cases.append((i, 'mut:' + name, lib, m.encode('latin-1', errors='replace'), d, False))
    nfresh = ctx.q(3000, 30000)
    for j in range(nfresh):
        i = N + j; r = rng.random()
        if r < 0.4: cases.append((i, 'bytes', 'aldor', mutate.random_bytes(rng), 'random-bytes', False))
        elif r < 0.55:
            data, d, inv = mutate.stress(rng); cases.append((i, 'stress', 'aldor', data, d, inv))
        elif r < 0.7:
            data, d, inv = mutate.ifsoup_accounted(rng); cases.append((i, 'ifsoup', 'aldor', data, d, inv))
        else:
            t = rng.choice(TEMPLATES); m, d, inv = mutate.unbalance(t, rng)
            cases.append((i, 'unbal:template', 'aldor', m.encode(), d, True))
    ctx.log('%d inputs (%d seeds)' % (len(cases), len(pool)))
    base = ctx.tmp('w')
    def work(case):
        i, kind, lib, data, desc, inv = case
        d = os.path.join(base, str(i)); os.makedirs(d, exist_ok=True)
        with open(os.path.join(d, 'x.as'), 'wb') as fh: fh.write(data)
        variants = ['asan'] + (['plain'] if i % 4 == 0 else [])
        res = []
        for v in variants:
            env = {'ALDOR_VERIF_BT': '1'} if v == 'plain' else None
            p = routes.aldor(b, ['-Fao', '-Fc', 'x.as'], d, lib=lib, variant=v, timeout=30, env=env, noaslr=True)
            if p.timeout:   # re-run once with a longer budget before calling it a hang
                p = routes.aldor(b, ['-Fao', '-Fc', 'x.as'], d, lib=lib, variant=v, timeout=150, env=env, noaslr=True)
            res.append((v, p))
        shutil.rmtree(d, ignore_errors=True)
        return case, res
    n = 0; classes = {}; nerr = 0; nok = 0; ninv = 0; nmem = 0
    for case, res in pmap(work, cases):
        i, kind, lib, data, desc, inv = case
        for v, p in res:
            n += 1
            blob = p.out + p.err
            errs = len(ERR_RE.findall(blob))
            ft = fault_text(p)
            files = {'x.as': data, 'cmd.txt': 'aldor[%s] -Fao -Fc x.as (lib %s); mutation %s of %s' % (v, lib, desc, kind), 'output.txt': blob[-6000:]}
            if p.timeout:
                ctx.violation('hang:%s:%s' % (v, kind if kind.startswith('mut:') else kind + ':' + desc), '%s build did not terminate in 150 s on %s (%s)' % (v, kind, desc), files)
                continue
            if b'hard rss limit exhausted' in blob or b'AddressSanitizer: requested allocation size' in blob or b'allocator is out of memory' in blob or (p.sig == 9 and not p.timeout):
                nmem += 1; continue      # the sanitizer's own memory cap, or SIGKILL from outside (memory pressure): no verdict from this build
            sig = san_signature(p)
            if sig:
                if 'stack-overflow' in sig[0]: sig = (sig[0], kind + ':' + desc if kind == 'stress' else kind)      # the innermost frame of an exhausted stack is arbitrary: key by input
                ctx.violation('%s:%s:%s' % (v, sig[0], sig[1]), '%s on %s (%s)' % (sig, kind, desc), files); continue
            if ft:
                site = fault_site(b, p, v)
                ctx.violation('%s:fault:%s' % (v, site), '%s %s on %s (%s)' % (p.cause, ft, kind, desc), files); continue
            if (p.rc != 0) != (errs > 0):
                ctx.violation('dishonest-exit:%s' % ('exit0-with-errors' if p.rc == 0 else 'nonzero-without-error'), '%s build: exit %s with %d error lines on %s (%s)' % (v, p.rc, errs, kind, desc), files); continue
            if inv:
                ninv += 1
                if errs == 0:
                    ctx.violation('invalid-accepted:%s' % desc.split('+')[0], '%s build accepted input known to be unbalanced/invalid: %s (%s)' % (v, kind, desc), files); continue
            if errs: nerr += 1
            else: nok += 1
            classes[kind.split(':')[0] + ('/err' if errs else '/ok')] = classes.get(kind.split(':')[0] + ('/err' if errs else '/ok'), 0) + 1
    ctx.sample({'kind': cases[3][1], 'mutation': cases[3][4], 'bytes_head': cases[3][3][:200].decode('latin-1')})
    ctx.sample({'kind': 'stress', 'shapes': sorted(set(c[4] for c in cases if c[1] == 'stress'))[:20]})
    ctx.assumptions += ['error lines are those containing (Error) or (Fatal Error); exit status is compared as zero / non-zero',
                        'known-invalid = bracket accounting over code tokens is unbalanced, or a shape invalid by construction (self-include, missing include, undefined calls)',
                        'the asan build uses the malloc store (no collector); the plain build with the real allocator/collector runs every 5th input']
    ctx.finish(n, len(set((c[1], c[4]) for c in cases)), 'one evaluation = one input compiled by one build in its own process; distinct = distinct (seed, mutation kinds) pairs',
               extra={'inputs': len(cases), 'accepted_without_error': nok, 'rejected_with_error': nerr, 'known_invalid_inputs': ninv, 'asan_memory_cap_hits_no_verdict': nmem, 'classes': classes, 'seeds': len(pool)},
               min_eval=N // 2)

main_guard(main)
