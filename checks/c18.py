#!/usr/bin/env python3
"""C18  A successful exit means every requested output was written.
For each output kind and program: a fault-free reference run, then one injected failure per run
(target on /dev/full, target a directory, target in a missing directory, the K-th write or the K-th close
of that output failing via strace syscall injection - enumerated over every write/close the reference run
performed -, RLIMIT_FSIZE sweeping the output's size).  Oracle: exit 0 => every requested output exists and
equals the reference bytes; an injected failure that fired => exit != 0 and a diagnostic."""
import os, sys
sys.path.insert(0, os.path.dirname(os.path.dirname(os.path.abspath(__file__))))
from vf.core import *
from vf import routes

PROGS = {'fact': '''#include "aldor"
#include "aldorio"
import from MachineInteger;
f(n: MachineInteger): MachineInteger == if n = 0 then 1 else n * f(n-1);
stdout << f(10) << newline;
''', 'dom': '''#include "aldor"
#include "aldorio"
define Shape: Category == with { area: % -> MachineInteger; name: % -> String; default name(s: %): String == "shape" };
Sq: Shape with { sq: MachineInteger -> % } == add {
	Rep == MachineInteger; import from Rep;
	sq(n: MachineInteger): % == per n;
	area(s: %): MachineInteger == rep(s) * rep(s);
}
import from Sq, MachineInteger, String, List MachineInteger;
stdout << area(sq 4) << " " << name(sq 2) << newline;
l: List MachineInteger := [i*i for i: MachineInteger in 1..20];
stdout << l << newline;
stdout << "a fairly long string constant so that the object file has some text in it: 0123456789 0123456789 0123456789" << newline;
'''}
# output kind -> (flag, file the flag produces for source x.as)
KINDS = {'ai': ('-Fai', 'x.ai'), 'ap': ('-Fap', 'x.ap'), 'asy': ('-Fasy', 'x.asy'), 'ao': ('-Fao', 'x.ao'), 'fm': ('-Ffm', 'x.fm'),
         'lsp': ('-Flsp', 'x.lsp'), 'c': ('-Fc', 'x.c'), 'java': ('-Fjava', 'aldorcode/x.java'), 'main': ('-Fmain', 'x-aldormain.c'),
         # C output split into several files (-Csmax): the header and a numbered part are outputs of their own
         # (added after seeded change C18-header-close-unchecked: the .h was the one close site left unchecked)
         'split-h': ('-Fc', 'x.h'), 'split-part': ('-Fc', 'x001.c')}
NOTARGET = ('java', 'main', 'split-h', 'split-part')      # the =target form does not name the file that is written
DIAG = re.compile(rb'\((Fatal )?Error\)|Program fault|could not|cannot|Could not|No space|File size limit', re.I)

def main():
    ctx = Ctx('C18', 'fault_enumeration', variants=('plain',))
    b = ctx.b; rng = ctx.rng
    progs = list(PROGS.items())
    jobs = []     # (prog, kind, mechanism, param)
    # reference runs first (sequentially cheap)
    refs = {}
    def setup(d, text):
        os.makedirs(d, exist_ok=True)
        open(os.path.join(d, 'x.as'), 'w').write(text)
    def flags(kind, target=None):
        f, _ = KINDS[kind]
        fl = [f if target is None else '%s=%s' % (f, target)]
        if kind == 'main': fl = ['-Fc'] + fl
        if kind.startswith('split'): fl = fl + ['-Csmax=5']
        return fl + ['-Mno-warnings', 'x.as']
    for pn, text in progs:
        for kind in KINDS:
            d = ctx.tmp('ref-%s-%s' % (pn, kind)); setup(d, text)
            out = KINDS[kind][1]
            p = run(['strace', '-f', '-P', os.path.join(d, out), '-e', 'trace=write,close', '-o', os.path.join(d, 'st.log'), b.aldor] + b.flags('aldor') + flags(kind), cwd=d, timeout=120)
            path = os.path.join(d, out)
            if kind.startswith('split') and p.rc == 0 and not os.path.exists(path): continue      # this program is not split at -Csmax=5
            if p.rc != 0 or not os.path.exists(path):
                ctx.violation('reference-run-failed:%s' % kind, 'fault-free run for %s/%s: %s, output %s\n%s' % (pn, kind, p.cause, 'present' if os.path.exists(path) else 'MISSING', p.out[-500:].decode(errors='replace')), files={'x.as': text})
                continue
            data = open(path, 'rb').read()
            log = open(os.path.join(d, 'st.log')).read()
            nwrite = len(re.findall(r'\bwrite\(', log)); nclose = len(re.findall(r'\bclose\(', log))
            refs[(pn, kind)] = (data, nwrite, nclose)
            if kind not in NOTARGET:
                jobs.append((pn, kind, 'devfull', 0)); jobs.append((pn, kind, 'isdir', 0)); jobs.append((pn, kind, 'nodir', 0))
            for k in range(1, nwrite + 1): jobs.append((pn, kind, 'write', k))
            for k in range(1, nclose + 1): jobs.append((pn, kind, 'close', k))
            sizes = sorted(set([0, 1, len(data) // 2, max(0, len(data) - 1)] + ([rng.randrange(len(data)) for _ in range(ctx.q(2, 12))] if data else [])))
            for n in sizes: jobs.append((pn, kind, 'fsize', n))
    # subsets of outputs with one failing member
    for pn, text in progs:
        for _ in range(ctx.q(6, 40)):
            ks = rng.sample(sorted(k for k in KINDS if k not in NOTARGET), rng.randint(2, 5))
            jobs.append((pn, '+'.join(ks), 'subset-devfull', rng.randrange(len(ks))))
    ctx.log('%d reference runs, %d injected runs' % (len(refs), len(jobs)))
    def work(job):
        pn, kind, mech, param = job
        text = PROGS[pn]
        d = ctx.tmp('inj-%s-%s-%s-%s' % (pn, kind.replace('+', '_'), mech, param)); setup(d, text)
        fired = True; requested = {}
        if mech == 'subset-devfull':
            ks = kind.split('+'); fl = []
            for i, k in enumerate(ks):
                if i == param: fl.append('%s=/dev/full' % KINDS[k][0])
                else: fl.append(KINDS[k][0]); requested[k] = KINDS[k][1]
            log = os.path.join(d, 'st.log')
            p = run(['strace', '-f', '-P', '/dev/full', '-e', 'trace=write', '-o', log, b.aldor] + b.flags('aldor') + fl + ['-Mno-warnings', 'x.as'], cwd=d, timeout=120)
            try: fired = 'ENOSPC' in open(log).read()
            except OSError: fired = False
        else:
            out = KINDS[kind][1]; path = os.path.join(d, out)
            if mech == 'devfull':
                log = os.path.join(d, 'st.log')
                p = run(['strace', '-f', '-P', '/dev/full', '-e', 'trace=write', '-o', log, b.aldor] + b.flags('aldor') + flags(kind, '/dev/full'), cwd=d, timeout=120)
                try: fired = 'ENOSPC' in open(log).read()
                except OSError: fired = False
            elif mech == 'isdir':
                os.makedirs(os.path.join(d, 'adir')); p = routes.aldor(b, flags(kind, 'adir'), d)
            elif mech == 'nodir':
                tgt = 'nodir/sub/' + os.path.basename(out); p = routes.aldor(b, flags(kind, tgt), d)
                # the compiler may legitimately create the directory: then the file must be there and complete
                requested = {kind: tgt}; fired = not os.path.exists(os.path.join(d, tgt))
            elif mech in ('write', 'close'):
                err = 'ENOSPC' if mech == 'write' else 'EIO'
                log = os.path.join(d, 'st.log')
                p = run(['strace', '-f', '-P', path, '-e', 'trace=write,close', '-e', 'inject=%s:error=%s:when=%d' % (mech, err, param), '-o', log, b.aldor] + b.flags('aldor') + flags(kind), cwd=d, timeout=120)
                fired = False
                try:
                    written = set()
                    for l in open(log):
                        m = re.search(r'\b(write|close)\((\d+)', l)
                        if not m: continue
                        if m.group(1) == 'write': written.add(m.group(2))
                        else:
                            if '(INJECTED)' in l and (mech == 'write' or m.group(2) in written): fired = True
                            written.discard(m.group(2))
                        if m.group(1) == 'write' and '(INJECTED)' in l: fired = True
                except OSError: fired = False
            elif mech == 'fsize':
                p = run(['prlimit', '--fsize=%d' % param, b.aldor] + b.flags('aldor') + flags(kind), cwd=d, timeout=120)
                fired = param < len(refs[(pn, kind)][0])
            if mech not in ('nodir',) and mech not in ('devfull', 'isdir'): requested = {kind: out}
        # collect what exists
        state = {}
        for k, rel in requested.items():
            pth = os.path.join(d, rel)
            state[k] = open(pth, 'rb').read() if os.path.isfile(pth) else None
        res = (job, p, fired, state)
        shutil.rmtree(d, ignore_errors=True)
        return res
    ninj = 0; nfired = 0; tallies = {}
    for (pn, kind, mech, param), p, fired, state in pmap(work, jobs):
        ninj += 1
        diag = bool(DIAG.search(p.out + p.err))
        ft = fault_text(p)
        key_kind = kind if '+' not in kind else 'subset'
        files = {'x.as': PROGS[pn], 'case.txt': 'program %s, output %s, mechanism %s %s\nexit: %s\noutput: %s' % (pn, kind, mech, param, p.cause, (p.out + p.err)[-800:].decode(errors='replace'))}
        tallies[mech] = tallies.get(mech, 0) + 1
        if p.timeout: ctx.violation('hang:%s:%s' % (key_kind, mech), 'no termination', files); continue
        if p.sig or (ft and 'Program fault' in ft and mech != 'fsize'):
            ctx.violation('fault:%s:%s' % (key_kind, mech), '%s %s' % (p.cause, ft), files); continue
        if p.rc == 0:
            # success claimed: every requested output must be complete
            for k, data in state.items():
                ref = refs.get((pn, k), (None,))[0]
                if data is None: ctx.violation('exit0-output-missing:%s:%s' % (k, mech), 'exit 0 but %s was not written (%s %s)' % (KINDS[k][1], mech, param), files)
                elif ref is not None and data != ref: ctx.violation('exit0-output-incomplete:%s:%s' % (k, mech), 'exit 0 but %s differs from the fault-free output (%d vs %d bytes) (%s %s)' % (KINDS[k][1], len(data), len(ref), mech, param), files)
            if fired and mech != 'nodir':
                nfired += 1
                ctx.violation('exit0-after-failed-%s:%s' % (mech, key_kind), 'injected %s failure on %s fired, compiler exited 0 without a diagnostic' % (mech, kind), files)
            elif fired and mech == 'nodir':
                nfired += 1
                ctx.violation('exit0-output-missing:%s:nodir' % key_kind, 'target in a missing directory: exit 0, nothing written, no message', files)
        else:
            if fired: nfired += 1
            if not diag:
                ctx.violation('nonzero-without-diagnostic:%s:%s' % (key_kind, mech), 'exit %s with no diagnostic (%s %s)' % (p.rc, mech, param), files)
            if not fired and mech in ('write', 'close'):
                pass   # injection point not reached this time (fewer syscalls than in the reference run): no verdict
    ctx.sample({'program': 'fact', 'kind': 'c', 'mechanism': 'write', 'K': 1, 'cmd': 'strace -f -P x.c -e inject=write:error=ENOSPC:when=1 aldor -Fc x.as'})
    ctx.assumptions += ['a write/close injection counts only if strace logged (INJECTED); fsize counts as fired when the limit is below the reference size',
                        'running as root: unwritable directories cannot be produced by permissions, so that mechanism is replaced by directory-as-target and missing-directory']
    inconc = None
    if nfired < ninj // 3: inconc = 'too few injections fired (%d of %d)' % (nfired, ninj)
    ctx.finish(ninj + len(refs), len(set((k, m) for _, k, m, _ in jobs)), 'one evaluation = one compiler run with one injected output failure (or the fault-free reference); distinct = (output kind, mechanism) pairs; write/close points enumerated from the reference trace',
               extra={'reference_runs': len(refs), 'injected_runs': ninj, 'injections_fired': nfired, 'per_mechanism': tallies, 'exhaustive': True,
                      'write_points': {('%s/%s' % k): v[1] for k, v in refs.items()}, 'close_points': {('%s/%s' % k): v[2] for k, v in refs.items()}},
               inconclusive=inconc)

main_guard(main)
