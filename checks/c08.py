#!/usr/bin/env python3
"""C08  Compiler output is a function of its input only.
Each program is compiled to .ao .fm .c .lsp (and .java for a sample) twice, the two invocations differing in one
irrelevant dimension: repetition, address-space randomisation, collector on / off / forced by the allocator hook at
chosen allocation counts with freed storage poisoned, working directory and absolute/relative source path, environment,
one invocation for three files versus three invocations.  All emitted files and the message stream must be identical."""
import os, sys, random
sys.path.insert(0, os.path.dirname(os.path.dirname(os.path.abspath(__file__))))
from vf.core import *
from vf import routes, progset

OUTS = ['o.ao', 'o.fm', 'o.c', 'o.lsp']

def main():
    ctx = Ctx('C08', 'exploration', variants=('plain',))
    b = ctx.b; rng = ctx.rng
    progs, disc = progset.pool(b, ctx, ctx.q(12, 120), ctx.q(10, 150), ctx.q(14, 260), 'C08')
    # programs with errors: the diagnostics are compiler output too (added after the second C08 seeded change, which ordered
    # rejected meanings by heap address, and the baseline defect found with it: a diagnostic that depended on uninitialised memory)
    FHEAD = '#include "aldor"\n#include "aldorio"\nimport from MachineInteger, Integer, String, SingleFloat, DoubleFloat, Character, Byte, List MachineInteger, Array MachineInteger, Set MachineInteger, List String, Array String, Set String, PrimitiveArray MachineInteger, PrimitiveArray String, List Integer, Array Integer;\nf(n: MachineInteger): MachineInteger == n + 1;\n'
    FAULTY = ['stdout << max(1, 2, 3, 4, 5) << newline;', 'stdout << new(1, 2, 3, 4, 5) << newline;', 'x: MachineInteger := "s";', 'stdout << f("abc") << newline;',
              'import from ZqNoSuchDomain;', 'stdout << (1 +) << newline;', 'zqundef(3);', 'stdout << empty?(1, 2) << newline;', 'stdout << f(1, 2) + coerce(3, 4) << newline;',
              'stdout << max(1, 2, 3) << new(1, 2, 3) << min("a", 2.0, 3) << newline;', 'stdout << empty?(1, 2, 3) << newline;', 'stdout << set!(1, 2, 3, 4, 5, 6) << newline;',
              'stdout << apply(1, 2, 3, 4, 5, 6) << newline;', 'stdout << copy(1, 2, 3, 4) << newline;', 'stdout << coerce(1, 2, 3) << newline;']
    for k, fl in enumerate(FAULTY):
        progs.append({'name': 'faulty:%d' % k, 'lib': 'aldor', 'text': FHEAD + fl + '\nstdout << f(2) << newline;\n', 'inc': None, 'expected': None, 'g': None, 'faulty': True})
    base = ctx.tmp('w')
    def compile_(d, pr, env=None, noaslr=False, extra=(), srcname='x.as', cwd=None, srcarg=None, timeout=300):
        progset.place(d, pr, srcname)
        args = list(extra) + progset.inc(pr) + ['-Q2', '-Fao=o.ao', '-Ffm=o.fm', '-Fc=o.c', '-Flsp=o.lsp', srcarg or srcname]
        p = routes.aldor(b, args, cwd or d, lib=pr['lib'], env=env, noaslr=noaslr, timeout=timeout)
        outs = {}
        for f in OUTS:
            try: outs[f] = open(os.path.join(cwd or d, f), 'rb').read()
            except OSError: outs[f] = None
        return p, outs
    def work(j):
        pr = progs[j]
        r = random.Random('%s/%d' % (pr['name'], ctx.seed))
        d0 = os.path.join(base, '%d-ref' % j)
        glog = os.path.join(d0, 'gc.log')
        p0, o0 = compile_(d0, pr, env={'ALDOR_VERIF_GC_LOG': glog})
        res = []
        if p0.timeout or ((p0.rc != 0 or any(v is None for v in o0.values())) and not pr.get('faulty')):
            shutil.rmtree(d0, ignore_errors=True); return j, None, res, 0
        nalloc = 0
        try: nalloc = int(re.search(r'allocs=(\d+)', open(glog).read()).group(1))
        except Exception: pass
        def variant(tag, **kw):
            d = os.path.join(base, '%d-%s' % (j, re.sub(r'\W+', '_', tag)))
            log = os.path.join(d, 'gc.log')
            env = dict(kw.pop('env', {}) or {})
            if 'ALDOR_VERIF_GC' in env: env['ALDOR_VERIF_GC_LOG'] = log
            p, o = compile_(d, pr, env=env, **kw)
            forced = 0
            try: forced = int(re.search(r'forced=(\d+)', open(log).read()).group(1))
            except Exception: pass
            res.append((tag, p, o, forced))
            shutil.rmtree(d, ignore_errors=True)
        variant('repeat')
        variant('no-aslr', noaslr=True)
        variant('gc-on', extra=['-Wgc'])
        variant('gc-off', extra=['-Wno-gc'])
        variant('env', env={'LANG': 'tr_TR.UTF-8', 'LC_ALL': 'C', 'TMPDIR': '/nonexistent', 'INCPATH': '/var/empty', 'ZQ_EXTRA_%d' % r.randint(0, 999): 'x' * r.randint(1, 5000), 'HOME': '/'})
        # another working directory, absolute source path (outputs are named by -F x=, so they land in the cwd)
        dd = os.path.join(base, '%d-cwd' % j); os.makedirs(os.path.join(dd, 'sub', 'dir'), exist_ok=True)
        progset.place(os.path.join(dd, 'src'), pr, 'x.as')
        p, o = compile_(os.path.join(dd, 'src'), pr, cwd=os.path.join(dd, 'sub', 'dir'), srcarg=os.path.join(dd, 'src', 'x.as'))
        res.append(('cwd+abs-path', p, o, 0)); shutil.rmtree(dd, ignore_errors=True)
        # forced collections: dense windows and sparse whole-run schedules (the hook makes washing permanent)
        nw = ctx.q(3, 16)
        if nalloc > 0:
            for w in range(nw):
                if r.random() < 0.6:
                    k = r.choice([1, 2, 3, 7]); width = r.choice([200, 600, 1500]) // (1 if k > 1 else 2)
                    lo = r.randrange(max(1, nalloc - width)); sched = '%d:%d:%d:%d' % (k, r.randrange(k), lo, lo + width)
                else:
                    k = max(50, nalloc // r.choice([100, 400, 1200])); sched = '%d:%d' % (k, r.randrange(k))
                variant('forced-gc ' + sched, env={'ALDOR_VERIF_GC': sched}, timeout=900)
        shutil.rmtree(d0, ignore_errors=True)
        return j, (p0, o0), res, nalloc
    n = 0; forced_total = 0; dims = {}
    for j, ref, res, nalloc in pmap(work, range(len(progs)), workers=NCPU):
        pr = progs[j]
        if ref is None: continue
        p0, o0 = ref
        for tag, p, o, forced in res:
            n += 1; forced_total += forced
            dim = tag.split(' ')[0]
            dims[dim] = dims.get(dim, 0) + 1
            files = {'x.as': pr['text'], 'case.txt': '%s dimension %s\nreference: %s\nvariant: %s\n%s' % (pr['name'], tag, p0.cause, p.cause, (p.out + p.err)[-1500:].decode(errors='replace'))}
            if p.timeout: ctx.violation('hang:%s' % dim, '%s %s' % (pr['name'], tag), files); continue
            ft = fault_text(p)
            if ft or p.rc != p0.rc:
                ctx.violation('fault-or-status:%s' % dim, '%s %s: %s %s (reference %s)' % (pr['name'], tag, p.cause, ft, p0.cause), files); continue
            if dim == 'forced-gc' and forced == 0:
                continue
            diff = [f for f in OUTS if o[f] != o0[f]]
            # the message stream: identical except that an absolute path shows up in messages of the cwd variant
            m0, m1 = p0.out, p.out
            if dim == 'cwd+abs-path':      # the source excerpt is indented by the length of the file name: compare the diagnostics proper
                m0 = b'\n'.join(l for l in m0.split(b'\n') if l.startswith(b'[L')); m1 = b'\n'.join(l for l in m1.split(b'\n') if l.startswith(b'[L'))
            if diff:
                for f in diff[:2]:
                    files['ref-' + f] = (o0[f] or b'')[:200000]; files['var-' + f] = (o[f] or b'')[:200000]
                ctx.violation('output-differs:%s:%s' % (dim, '+'.join(x.split('.')[-1] for x in diff)), '%s %s: %s differ' % (pr['name'], tag, diff), files)
            elif m0 != m1:
                ctx.violation('messages-differ:%s' % dim, '%s %s' % (pr['name'], tag), files)
    # batch versus separate invocation
    nb = ctx.q(6, 40); bcount = 0
    gens = [p for p in progs if p['name'].startswith('gen:')]
    def bwork(k):
        r = random.Random('batch%d/%d' % (k, ctx.seed))
        trio = r.sample(gens, 3)
        d = os.path.join(base, 'batch%d' % k); os.makedirs(d)
        names = ['a.as', 'b.as', 'c.as']
        for nme, pr in zip(names, trio): progset.place(d, pr, nme)
        pb = routes.aldor(b, ['-Q2', '-Fao', '-Ffm', '-Fc'] + names, d, timeout=600)
        got = {}
        for nme in names:
            for ext in ('ao', 'fm', 'c'):
                try: got[(nme, ext)] = open(os.path.join(d, nme[:-2] + ext), 'rb').read()
                except OSError: got[(nme, ext)] = None
        sep = {}
        for nme, pr in zip(names, trio):
            ds = os.path.join(d, 'sep-' + nme[0]); progset.place(ds, pr, nme)
            routes.aldor(b, ['-Q2', '-Fao', '-Ffm', '-Fc', nme], ds, timeout=300)
            for ext in ('ao', 'fm', 'c'):
                try: sep[(nme, ext)] = open(os.path.join(ds, nme[:-2] + ext), 'rb').read()
                except OSError: sep[(nme, ext)] = None
        # behaviour of the batched objects
        beh = {}
        for nme in names:
            pa = routes.interp_ao(b, d, nme[:-2] + 'ao'); ps = routes.interp_ao(b, os.path.join(d, 'sep-' + nme[0]), nme[:-2] + 'ao')
            beh[nme] = (routes.norm_out(pa, True), pa.xclass, routes.norm_out(ps, True), ps.xclass)
        shutil.rmtree(d, ignore_errors=True)
        return trio, got, sep, beh
    for trio, got, sep, beh in pmap(bwork, range(nb), workers=8):
        for pos, nme in enumerate(['a.as', 'b.as', 'c.as']):
            n += 1; bcount += 1
            diff = [ext for ext in ('ao', 'fm', 'c') if got[(nme, ext)] != sep[(nme, ext)]]
            files = {nme: trio[pos]['text'], 'case.txt': 'batch of three files, position %d (%s)' % (pos + 1, ', '.join(t['name'] for t in trio))}
            if got[(nme, 'ao')] is None and sep[(nme, 'ao')] is not None:
                ctx.violation('batch:first-file-not-compiled' if pos == 0 else 'batch:later-file-not-compiled', 'file %d of a batch is refused although it compiles alone' % (pos + 1), files)
            elif beh[nme][0] != beh[nme][2] or beh[nme][1] != beh[nme][3]:
                ctx.violation('batch:behaviour-differs', 'file %d of a batch behaves differently from its separate compilation' % (pos + 1), files)
            elif diff and pos == 0:
                ctx.violation('batch:first-file-differs:%s' % '+'.join(diff), 'first file of a batch differs from its separate compilation', files)
            elif diff:
                ctx.violation('batch:later-files-differ', 'file %d of a batch: %s differ from the separate compilation (same behaviour)' % (pos + 1, diff), files)
    ctx.sample({'program': progs[0]['name'], 'dimensions': sorted(dims)})
    inconc = None
    if forced_total == 0: inconc = 'the hook never forced a collection'
    ctx.assumptions += ['outputs are named with -F x=o.x so that only the invocation differs; in the cwd variant the absolute source path may appear in messages and is mapped back',
                        'forced schedules collect at every k-th allocation inside a window (dense) or over the whole run (sparse); the hook log proves how many collections ran']
    ctx.finish(n, len(progs) + len(dims), 'one evaluation = one invocation compared byte for byte with the reference invocation of the same program; distinct = programs + dimensions',
               extra={'programs': len(progs), 'per_dimension': dims, 'forced_collections_total': forced_total, 'batch_files': bcount}, inconclusive=inconc, min_eval=50)

main_guard(main)
