#!/usr/bin/env python3
"""C01  Programs produce the result the language defines.
Programs are drawn from the typed abstract grammar of vf/gen.py; the expected output and exit class come from the
reference evaluator (which never sees anything the compiler produced); each program is run interpreted and as a C
executable at -Q1 and -Q0 and the text and exit class are compared with the expectation."""
import os, sys
sys.path.insert(0, os.path.dirname(os.path.dirname(os.path.abspath(__file__))))
from vf.core import *
from vf import routes, gen

def main():
    ctx = Ctx('C01', 'translation_validation', variants=('plain',))
    b = ctx.b
    npool = ctx.q(120, 1500); nfresh = ctx.q(120, 2500)
    progs = []
    disc = 0
    for sd, g, text, out, cls, d in gen.programs('C01-pool', npool): progs.append(('pool:' + sd, g, text, out, cls)); disc = d
    d0 = disc
    for sd, g, text, out, cls, d in gen.programs('C01-fresh-%d' % ctx.seed, nfresh): progs.append(('fresh:' + sd, g, text, out, cls)); disc = d0 + d
    # opt-in shapes that the shared pools do not contain (their text is pinned by other checks' recorded findings):
    # tagged unions with two branches of one type, built with [tag == value]  (seeded change C01-union-tag-index)
    ntag = ctx.q(40, 400)
    for tagn, cnt in (('C01-tagged-pool', ntag // 2), ('C01-tagged-fresh-%d' % ctx.seed, ntag - ntag // 2)):
        for sd, g, text, out, cls, d in gen.programs(tagn, cnt, extra=('taggedunion', 'unions')): progs.append(('tagged:' + sd, g, text, out, cls))
    for fam, extra in (('fluid', ('fluids',)), ('counter', ('counters', 'closures'))):
        nf = ctx.q(16, 200)
        for tagn, cnt in (('C01-%s-pool' % fam, nf // 2), ('C01-%s-fresh-%d' % (fam, ctx.seed), nf - nf // 2)):
            for sd, g, text, out, cls, d in gen.programs(tagn, cnt, extra=extra): progs.append((fam + ':' + sd, g, text, out, cls))
    ctx.log('%d programs (%d discarded by the discipline)' % (len(progs), disc))
    base = ctx.tmp('w')
    LEVELS = ['-Q1', '-Q0'] if ctx.tier == 'quick' else ['-Q1', '-Q0', '-Q3']
    BT = {'ALDOR_VERIF_BT': '1'}
    def comp_fault(p):
        """innermost repository functions of a fault that happened while compiling (not while interpreting the program)"""
        if b'ALDOR_VERIF_BT begin' not in (p.err + p.out): return None
        full = fault_chain(b, p, 60).split('<')
        if 'fint' in full or 'fintExecMainUnit' in full: return None
        return '<'.join(full[:3])
    def work(job):
        j, (name, g, text, out, cls) = job
        res = []
        for lv in LEVELS:
            d = os.path.join(base, '%d%s' % (j, lv)); os.makedirs(d + '/i'); os.makedirs(d + '/c')
            for sub in ('i', 'c'): open(os.path.join(d, sub, 'x.as'), 'w').write(text)
            pi = routes.interp_src(b, os.path.join(d, 'i'), 'x.as', [lv], env=BT)
            res.append(('interp' + lv, pi, routes.norm_out(pi, interp=True)))
            pc, gcc, exe = routes.compile_c(b, os.path.join(d, 'c'), 'x.as', [lv], env=BT)
            if exe:
                pr = routes.run_exe(exe, os.path.join(d, 'c')); res.append(('c' + lv, pr, pr.out))
            else: res.append(('c' + lv, gcc or pc, None))
            shutil.rmtree(d, ignore_errors=True)
        return job, res
    nexec = 0; tagsets = set(); nfail_expected = 0; nrejected = 0; rej_classes = {}
    for (j, (name, g, text, out, cls)), res in pmap(work, list(enumerate(progs))):
        # a program the compiler refuses on every route is C06's subject (well-typed programs are accepted), not C01's:
        # it is counted here, bounded by a rate threshold below, and skipped
        cerrs = [re.search(rb'\(Error\) ([^\n]{0,60})', (p.out + p.err)) for route, p, got in res]
        if all(cerrs) and all((got is None) or (b'(Error)' in (got or b'')) for route, p, got in res):
            nrejected += 1
            cl = re.sub(r'`[^\']*\'', '`..\'', cerrs[0].group(1).decode(errors='replace'))
            rej_classes[cl] = rej_classes.get(cl, 0) + 1
            continue
        tagsets.add(frozenset(g.tags))
        if cls == 'fail': nfail_expected += 1
        for route, p, got in res:
            nexec += 1
            files = {'x.as': text, 'expected.txt': out + '[exit class %s]\n' % cls, 'observed-%s.txt' % route: (got or b'') + (b'\n[' + p.cause.encode() + b']\n') + p.err[-1500:]}
            # a fault of the compiler itself is keyed by where it happened (innermost repository functions), whatever the route
            cf = comp_fault(p)
            if cf:
                ctx.violation('compiler-fault:%s' % cf, '%s on %s: %s\n%s' % (route, name, p.cause, fault_text(p)), files); continue
            if got is None:
                ctx.violation('no-executable:%s' % route, '%s on %s: %s\n%s' % (route, name, p.cause, (p.out + p.err)[-500:].decode(errors='replace')), files); continue
            if p.timeout: ctx.violation('hang:%s' % route, '%s on %s' % (route, name), files); continue
            ft = fault_text(p)
            if p.sig or (ft and 'Unhandled' not in ft and ft not in ('',)):
                ctx.violation('fault:%s' % route, '%s on %s: %s %s' % (route, name, p.cause, ft), files); continue
            xc = 'ok' if p.rc == 0 else 'fail'
            if got.decode(errors='replace') != out or xc != cls:
                feats = '+'.join(sorted(g.tags))
                ctx.violation('wrong-result:%s' % route.rstrip('0123456789-Q') , '%s on %s [%s]: expected %r/%s got %r/%s' % (route, name, feats, out[-200:], cls, got[-200:], xc), files)
    if nrejected * 20 > len(progs):
        ctx.violation('too-many-valid-programs-rejected', '%d of %d generated programs were refused by the compiler: %s' % (nrejected, len(progs), rej_classes))
    # witnesses of recorded findings: re-run, reported while they still fail
    kd = os.path.join(VERIF, 'known', 'C01')
    for fn in sorted(os.listdir(kd)) if os.path.isdir(kd) else []:
        if not fn.endswith('.as'): continue
        text = open(os.path.join(kd, fn)).read(); exp = open(os.path.join(kd, fn[:-3] + '.expected')).read()
        d = ctx.tmp('known-' + fn[:-3]); open(os.path.join(d, 'x.as'), 'w').write(text)
        mo = re.match(r'-- opts: (.*)\n', text)
        p = routes.interp_src(b, d, 'x.as', mo.group(1).split() if mo else ['-Q1'], env=BT); nexec += 1
        cf = comp_fault(p)
        if cf: ctx.violation('compiler-fault:%s' % cf, 'witness %s: %s' % (fn, fault_text(p)), {'x.as': text})
        elif routes.norm_out(p, True).decode(errors='replace') != exp or p.rc != 0:
            ctx.violation('witness:' + fn[:-3], 'expected %r, got %r (%s)' % (exp, p.out[-200:], p.cause), {'x.as': text})
    ctx.sample({'program': progs[0][2][-900:], 'expected': progs[0][3], 'exit': progs[0][4]})
    ctx.assumptions += ['the reference evaluator implements the Aldor User Guide semantics for the generated subset (DESIGN 2.2); programs outside its discipline are discarded before compilation',
                        'exit status is compared by class (0 / non-zero)']
    ctx.finish(nexec, len(tagsets), 'one evaluation = one program executed on one route at one level and compared with the reference evaluator; distinct = distinct feature-tag sets',
               extra={'programs': len(progs), 'discarded_by_discipline': disc, 'levels': LEVELS, 'routes': ['interp', 'c'], 'programs_expected_to_fail_with_uncaught_exception': nfail_expected,
                      'disagreements_checked': len(ctx.viol), 'rejected_by_compiler_skipped': nrejected, 'rejection_classes': rej_classes}, min_eval=100)

main_guard(main)
