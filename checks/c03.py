#!/usr/bin/env python3
"""C03  Interpreter and native executable agree.
Each program (generated family incl. programs ending by an uncaught exception, and the deterministic runnable corpus)
is run interpreted from source, interpreted from its saved .ao, and as a C executable, at several optimisation levels;
standard output and exit class must agree pairwise."""
import os, sys
sys.path.insert(0, os.path.dirname(os.path.dirname(os.path.abspath(__file__))))
from vf.core import *
from vf import routes, progset

def main():
    ctx = Ctx('C03', 'translation_validation', variants=('plain',))
    b = ctx.b
    progs, disc = progset.pool(b, ctx, ctx.q(50, 400), ctx.q(50, 600), ctx.q(50, 400), 'C03')
    # -Q9 is left to C02: it switches on the experimental passes whose hangs and behaviour changes are recorded there, and every
    # route shares the same compile step, so comparing routes at -Q9 only repeats those findings
    LEVELS = ctx.q(['-Q0', '-Q1', '-Q3'], ['-Q0', '-Q1', '-Q2', '-Q3', '-Q5'])
    # opt-in shapes the shared pools do not contain: fluid variables rebound under a handler and under the raise point
    # (seeded change C03-fint-fluid-restore), tagged unions, counter closures
    nopt = ctx.q(6, 60)
    for fam, extra in (('fluid', ('fluids',)), ('tagged', ('taggedunion', 'unions')), ('counter', ('counters', 'closures'))):
        progs += progset.generated('C03-%s-pool' % fam, nopt // 2, extra=extra)[0] + progset.generated('C03-%s-fresh-%d' % (fam, ctx.seed), nopt - nopt // 2, extra=extra)[0]
    ROUTES = ['interp-src', 'interp-ao', 'c']
    base = ctx.tmp('w')
    jobs = [(j, lv) for j in range(len(progs)) for lv in LEVELS]
    def work(job):
        j, lv = job
        res = {}
        for r in ROUTES:
            d = os.path.join(base, '%d%s-%s' % (j, lv, r))
            res[r] = progset.run_route(b, d, progs[j], r, [lv])
            shutil.rmtree(d, ignore_errors=True)
        return job, res
    n = 0; tall = {}; skipped = {}
    for (j, lv), res in pmap(work, jobs):
        pr = progs[j]
        outs = {r: (res[r][0], res[r][1]) for r in ROUTES}
        n += 1
        files = {'x.as': pr['text']}
        for r in ROUTES: files['observed-%s.txt' % r] = (res[r][0] or b'') + ('\n[%s]\n' % res[r][1]).encode() + res[r][2].err[-1000:]
        kind = pr['name'].split(':')[0]
        # A fault is a failure exit like any other for this property (agreement is what is demanded); what may not happen is
        # that the routes differ, that one hangs, or that one cannot be built while another runs.
        bad = False
        # the compile step is common to the routes: a program that no route can compile (refused with errors, or the compiler
        # does not terminate) is not a disagreement between routes; it is counted and left to C06 / C02
        def refused(r):
            o, xc, p = res[r]
            return xc.startswith('compile-') or (r == 'interp-src' and p.rc != 0 and bool(re.search(rb'\[L\d+ C\d+\] #\d+ \((Fatal )?Error\)', p.out + p.err)))
        if all('watchdog' in res[r][1] for r in ROUTES): skipped['compile-does-not-terminate'] = skipped.get('compile-does-not-terminate', 0) + 1; continue
        if all(refused(r) for r in ROUTES):
            skipped['refused-on-every-route'] = skipped.get('refused-on-every-route', 0) + 1; continue
        for r in ROUTES:
            o, xc, p = res[r]
            if 'watchdog' in xc:
                ctx.violation('hang:%s:%s' % (r, pr['name'] if kind == 'corpus' else 'generated'), '%s %s %s' % (pr['name'], lv, r), files); bad = True
        ncomp = [r for r in ROUTES if res[r][1].startswith('compile-')]
        if ncomp and len(ncomp) < len(ROUTES):
            r = ncomp[0]; p = res[r][2]
            ctx.violation('no-executable:%s:%s:%s' % (r, lv, pr['name'] if kind == 'corpus' else 'generated'), '%s %s %s: %s' % (pr['name'], lv, r, (p.out + p.err)[-400:].decode(errors='replace')), files); bad = True
        if bad or ncomp: continue
        ref = outs['c']
        def cls(x): return 'ok' if x == 'ok' else 'fail'
        def faulted(r): return res[r][1] == 'signal' or bool(fault_text(res[r][2]) and 'Unhandled' not in fault_text(res[r][2]))
        for r in ('interp-src', 'interp-ao'):
            if faulted(r) and faulted('c'): continue        # both end in a fault: buffered output of the dying process is not comparable
            if outs[r][0] != ref[0] or cls(outs[r][1]) != cls(ref[1]):
                ctx.violation('disagree:%s-vs-c:%s:%s' % (r, lv, pr['name'] if kind == 'corpus' else 'generated'),
                              '%s at %s: %s gives %r/%s, c gives %r/%s' % (pr['name'], lv, r, (outs[r][0] or b'')[-150:], outs[r][1], (ref[0] or b'')[-150:], ref[1]), files)
        tall[kind + ':' + cls(ref[1])] = tall.get(kind + ':' + cls(ref[1]), 0) + 1
    ctx.sample({'program': progs[0]['name'], 'levels': LEVELS, 'routes': ROUTES})
    ctx.finish(n * len(ROUTES), len(progs), 'one evaluation = one program run on one route at one level; the three routes of a (program, level) are compared; distinct = programs',
               extra={'programs': len(progs), 'levels': LEVELS, 'routes': ROUTES, 'outcome_classes': tall, 'skipped_program_levels': skipped, 'discarded_by_discipline': disc, 'disagreements_checked': len(ctx.viol) + len(ctx.known_hit)}, min_eval=100)

main_guard(main)
