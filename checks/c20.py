#!/usr/bin/env python3
"""C20  Core containers and the boolean normal form behave as their models.
Histories are generated here, replayed by harness/cont_h.c and harness/dnf_h.c on the repository's
modules (real allocator build and malloc-store ASan build) and compared line by line with Python models."""
import os, sys, itertools, heapq, bisect, struct
sys.path.insert(0, os.path.dirname(os.path.dirname(os.path.abspath(__file__))))
from vf.core import *

# ------------------------------------------------------------------ history generators (command, expected)
def hist_table(rng, steps):
    out = []
    tabs = {}
    def new(i):
        mod = rng.choice([1, 2, 3, 7, 0, 0, 1000003])
        tabs[i] = {}
        out.append(('T new %d %d' % (i, mod), '-'))
    for i in range(3): new(i)
    keyspace = rng.choice([8, 40, 300, 5000])
    for s in range(steps):
        i = rng.randrange(3); t = tabs[i]
        r = rng.random()
        k = rng.randrange(keyspace) if rng.random() < 0.9 else rng.choice([-1, 2**40 + rng.randrange(5), -2**35])
        if r < 0.35:
            v = rng.randrange(1, 10**6); t[k] = v; out.append(('T set %d %d %d' % (i, k, v), str(v)))
        elif r < 0.55:
            out.append(('T get %d %d' % (i, k), str(t.get(k, -1))))
        elif r < 0.75:
            if t and rng.random() < 0.7: k = rng.choice(list(t))
            t.pop(k, None); out.append(('T drop %d %d' % (i, k), '-'))
        elif r < 0.82:
            out.append(('T size %d' % i, str(len(t))))
        elif r < 0.88:
            if len(t) > 300 and rng.random() < 0.9: continue
            out.append(('T iter %d' % i, ' '.join([str(len(t))] + ['%d:%d' % kv for kv in sorted(t.items())])))
        elif r < 0.91:
            j = (i + 1 + rng.randrange(2)) % 3
            tabs[j] = dict(t); out.append(('T copy %d %d' % (i, j), '-'))
        elif r < 0.94:
            for kk in t: t[kk] += 1
            out.append(('T nmap %d' % i, '-'))
        elif r < 0.96:
            n = 0
            for kk in t:
                if t[kk] & 1: t[kk] = 0; n += 1
            out.append(('T rmodd %d' % i, str(n)))
        elif r < 0.97:
            new(i)
        else:   # growth burst across resize thresholds
            for _ in range(rng.randrange(10, 200)):
                k = rng.randrange(10**6); v = rng.randrange(1, 1000); t[k] = v
                out.append(('T set %d %d %d' % (i, k, v), str(v)))
            out.append(('T size %d' % i, str(len(t))))
    for i in range(3):
        out.append(('T iter %d' % i, ' '.join([str(len(tabs[i]))] + ['%d:%d' % kv for kv in sorted(tabs[i].items())])))
    return out

def bval(k): return (k * 3 + 1) % 1000003

def hist_btree(rng, steps):
    """entries carry a value determined by their key, so equal keys are indistinguishable and the
    model can be advanced at generation time"""
    out = []
    t = rng.choice([2, 2, 3, 4, 5, 8])
    out.append(('B new 0 %d' % t, '-'))
    items = []      # sorted list of keys (multiset)
    keyspace = rng.choice([6, 50, 1000, 2**40])
    def walk(): return 'W' + ''.join(' %d:%d' % (k, bval(k)) for k in items) + ' n=%d sorted=1' % len(items)
    for s in range(steps):
        r = rng.random()
        k = rng.randrange(keyspace)
        if r < 0.45 or not items:
            bisect.insort(items, k); out.append(('B ins 0 %d %d' % (k, bval(k)), '-'))
        elif r < 0.75:
            k = rng.choice(items)
            items.remove(k); out.append(('B del 0 %d' % k, str(bval(k))))
        elif r < 0.83:
            if rng.random() < 0.6: k = rng.choice(items)
            out.append(('B eq 0 %d' % k, '%d:%d' % (k, bval(k)) if k in items else 'none'))
        elif r < 0.9:
            i = bisect.bisect_left(items, k)
            out.append(('B ge 0 %d' % k, str(items[i]) if i < len(items) else 'none'))
        elif r < 0.93:
            out.append(('B min 0', str(items[0])))
        elif r < 0.96:
            out.append(('B max 0', str(items[-1])))
        elif len(items) < 3000 or rng.random() < 0.02:
            out.append(('B check 0', '0'))
            out.append(('B walk 0', walk()))
    out.append(('B check 0', '0'))
    if items: out.append(('B walk 0', walk()))
    return out

def hist_priq(rng, steps):
    out = [('P new 0 %d' % rng.choice([1, 2, 5, 64]), '-')]
    h = []   # heap of keys; value = key + 1000
    keyspace = rng.choice([4, 100, 10**6])
    for s in range(steps):
        r = rng.random()
        if r < 0.5 or not h:
            k = rng.randrange(keyspace)
            heapq.heappush(h, k); out.append(('P ins 0 %d %d' % (k, k + 1000), '-'))
        elif r < 0.8:
            k = heapq.heappop(h); out.append(('P min 0', '%g %d' % (k, k + 1000)))
        elif r < 0.88:
            out.append(('P peek 0', '%g %d' % (h[0], h[0] + 1000)))
        elif r < 0.94:
            out.append(('P count 0', str(len(h))))
        else:
            out.append(('P heap 0', '1'))
            if len(set(h)) == len(h) and h: out.append(('P check 0', '1'))
    return out

def hist_bitv(rng, steps):
    n = rng.choice([1, 5, 31, 32, 33, 63, 64, 65, 100, 127, 128, 129, 200])
    out = [('V new 0 %d' % n, '-')]
    v = [0, 0, 0, 0]; full = (1 << n) - 1
    def dump(i): return ''.join(str((v[i] >> j) & 1) for j in range(n))
    for s in range(steps):
        r = rng.random(); a, b, c = rng.randrange(4), rng.randrange(4), rng.randrange(4); ix = rng.choice([0, n - 1, rng.randrange(n), min(n - 1, 63), min(n - 1, 64)])
        if r < 0.2: v[a] |= 1 << ix; out.append(('V set 0 %d %d' % (a, ix), '-'))
        elif r < 0.3: v[a] &= ~(1 << ix); out.append(('V clear 0 %d %d' % (a, ix), '-'))
        elif r < 0.4: out.append(('V test 0 %d %d' % (a, ix), str((v[a] >> ix) & 1)))
        elif r < 0.43: v[a] = full; out.append(('V setall 0 %d' % a, '-'))
        elif r < 0.46: v[a] = 0; out.append(('V clearall 0 %d' % a, '-'))
        elif r < 0.5: v[a] = v[b]; out.append(('V copy 0 %d %d' % (a, b), '-'))
        elif r < 0.56: v[a] = ~v[b] & full; out.append(('V not 0 %d %d' % (a, b), '-'))
        elif r < 0.62: v[a] = v[b] & v[c]; out.append(('V and 0 %d %d %d' % (a, b, c), '-'))
        elif r < 0.68: v[a] = v[b] | v[c]; out.append(('V or 0 %d %d %d' % (a, b, c), '-'))
        elif r < 0.74: v[a] = v[b] & ~v[c] & full; out.append(('V minus 0 %d %d %d' % (a, b, c), '-'))
        elif r < 0.8: out.append(('V equal 0 %d %d' % (a, b), str(int(v[a] == v[b]))))
        elif r < 0.84: out.append(('V max 0 %d' % a, str(v[a].bit_length() - 1)))
        elif r < 0.88: out.append(('V count 0 %d' % a, str(bin(v[a]).count('1'))))
        elif r < 0.91:
            k = rng.randrange(n + 1); out.append(('V countto 0 %d %d' % (a, k), str(bin(v[a] & ((1 << k) - 1)).count('1'))))
        elif r < 0.94:
            lo = rng.randrange(n + 1); hi = rng.randrange(lo, n + 1); m = (v[a] >> lo) & ((1 << (hi - lo)) - 1)
            out.append(('V uniq 0 %d %d %d' % (a, lo, hi), str(lo + m.bit_length() - 1) if bin(m).count('1') == 1 else '-1'))
        elif r < 0.96 and n < 31:
            out.append(('V toint 0 %d' % a, str(v[a])))
        elif r < 0.98 and n < 31:
            x = rng.randrange(1 << n); v[a] = x; out.append(('V frint 0 %d %d' % (a, x), '-'))
        else:
            out.append(('V dump 0 %d' % a, dump(a)))
    for a in range(4): out.append(('V dump 0 %d' % a, dump(a)))
    return out

def hist_intset(rng, steps):
    n = rng.choice([1, 8, 64, 65, 1000]); out = [('I new 0 %d' % n, '-')]; s = set()
    for _ in range(steps):
        k = rng.randrange(n); r = rng.random()
        if r < 0.4: s.add(k); out.append(('I add 0 %d' % k, '-'))
        elif r < 0.6: s.discard(k); out.append(('I rem 0 %d' % k, '-'))
        else: out.append(('I mem 0 %d' % k, str(int(k in s))))
    return out

def hist_list(rng, steps):
    out = []; L = [[], [], []]
    for i in range(3): out.append(('L nil %d' % i, '-'))
    for _ in range(steps):
        i = rng.randrange(3); l = L[i]; r = rng.random(); x = rng.randrange(1, 12)
        if r < 0.3: l.insert(0, x); out.append(('L cons %d %d' % (i, x), '-'))
        elif r < 0.36: l.reverse(); out.append(('L nrev %d' % i, '-'))
        elif r < 0.4: l.reverse(); out.append(('L rev %d' % i, '-'))
        elif r < 0.45:
            j = (i + 1) % 3; L[j] = list(l); out.append(('L copy %d %d' % (i, j), '-'))
        elif r < 0.5:
            j = (i + 1) % 3
            if len(l) + len(L[j]) > 3000: continue
            L[i] = l + L[j]; L[j] = []; out.append(('L nconcat %d %d' % (i, j), '-'))
        elif r < 0.54:
            j = (i + 1) % 3; k = (i + 2) % 3
            if len(l) + len(L[j]) > 3000: continue
            L[k] = l + L[j]; out.append(('L concat %d %d %d' % (i, j, k), '-'))
        elif r < 0.6: out.append(('L len %d' % i, str(len(l))))
        elif r < 0.66:
            if l: k = rng.randrange(len(l)); out.append(('L elt %d %d' % (i, k), str(l[k])))
        elif r < 0.72: out.append(('L memq %d %d' % (i, x), str(int(x in l))))
        elif r < 0.78: out.append(('L posq %d %d' % (i, x), str(l.index(x) if x in l else -1)))
        elif r < 0.84:
            if x in l: l.remove(x)
            out.append(('L nremove %d %d' % (i, x), '-'))
        elif r < 0.88:
            k = rng.randrange(len(l) + 1); out.append(('L drop %d %d' % (i, k), str(len(l) - k)))
        elif r < 0.92:
            k = rng.randrange(len(l) + 2); out.append(('L islen %d %d' % (i, k), '%d' % (len(l) == k)))
        elif r < 0.95: out.append(('L last %d' % i, str(l[-1] if l else -1)))
        elif r < 0.97:
            j = (i + 1) % 3; out.append(('L equal %d %d' % (i, j), str(int(l == L[j]))))
        else: out.append(('L dump %d' % i, ' '.join(['L'] + [str(e) for e in l])))
    for i in range(3): out.append(('L dump %d' % i, ' '.join(['L'] + [str(e) for e in L[i]])))
    return out

def hist_buffer(rng, steps):
    out = [('U new 0', '-')]; data = bytearray(); ops = []
    for _ in range(steps):
        r = rng.random()
        if r < 0.2: x = rng.randrange(256); data += bytes([x]); ops.append(('gbyte', str(x))); out.append(('U byte 0 %d' % x, '-'))
        elif r < 0.4: x = rng.choice([0, 1, 255, 256, 65535, rng.randrange(65536)]); data += struct.pack('<H', x); ops.append(('ghint', str(x))); out.append(('U hint 0 %d' % x, '-'))
        elif r < 0.6: x = rng.choice([0, 1, 2**31 - 1, 2**31, 2**32 - 1, rng.randrange(2**32)]); data += struct.pack('<I', x); ops.append(('gsint', str(x))); out.append(('U sint 0 %d' % x, '-'))
        elif r < 0.7: x = rng.randrange(2**32); data += struct.pack('<I', x); ops.append(('rdul', str(x))); out.append(('U wrul 0 %d' % x, '-'))
        elif r < 0.78: x = rng.randrange(65536); data += struct.pack('<H', x); ops.append(('rdus', str(x))); out.append(('U wrus 0 %d' % x, '-'))
        elif r < 0.9:
            k = rng.randrange(250); b = rng.randrange(26); s = ''.join(chr(ord('a') + (i + b) % 26) for i in range(k))
            data += struct.pack('<I', k + 1) + s.encode() + b'\0'; ops.append(('rdstr', s + '.')); out.append(('U str 0 %d %d' % (k, b), '-'))
        else:
            k = rng.randrange(250); b = rng.randrange(26); s = ''.join(chr(ord('A') + (i + b) % 26) for i in range(k))
            data += s.encode(); ops.append(('gchars %d' % k, s + '.')); out.append(('U chars 0 %d %d' % (k, b), '-'))
        if rng.random() < 0.05: out.append(('U pos 0', str(len(data))))
    out.append(('U hex 0', 'H' + data.hex()))
    out.append(('U start 0', '-'))
    for op, exp in ops:
        out.append(('U %s' % (op if ' ' not in op else op.split(' ')[0] + ' 0 ' + op.split(' ')[1]) if ' ' in op else 'U %s 0' % op, exp))
    return out

GENS = {'table': hist_table, 'btree': hist_btree, 'priq': hist_priq, 'bitv': hist_bitv, 'intset': hist_intset, 'list': hist_list, 'buffer': hist_buffer}

def compare(hist, lines):
    """returns (index, command, got, expected) of the first mismatch, or (None, number of informative results)"""
    n = 0
    for idx, ((cmd, exp), got) in enumerate(zip(hist, lines)):
        if got != exp: return idx, cmd, got[:300], exp[:300]
        if exp != '-': n += 1
    if len(lines) < len(hist):
        return len(lines), hist[len(lines)][0], '<no output>', str(hist[len(lines)][1])[:200]
    return None, n

# ------------------------------------------------------------------ DNF
def dnf_formulas_exhaustive(natoms, depth):
    """all formulas up to `depth` over atoms 1..natoms, as (prefix text, truth function)"""
    lits = [('a%d' % i, lambda e, i=i: e[i]) for i in range(1, natoms + 1)] + [('n%d' % i, lambda e, i=i: not e[i]) for i in range(1, natoms + 1)] + \
           [('T', lambda e: True), ('F', lambda e: False)]
    levels = [lits]
    allf = list(lits)
    for d in range(depth):
        new = []
        prev = allf
        for t, f in prev: new.append(('N ' + t, lambda e, f=f: not f(e)))
        for (t1, f1), (t2, f2) in itertools.product(prev, prev):
            new.append(('A %s %s' % (t1, t2), lambda e, f1=f1, f2=f2: f1(e) and f2(e)))
            new.append(('O %s %s' % (t1, t2), lambda e, f1=f1, f2=f2: f1(e) or f2(e)))
        allf = allf + new
    return allf

def rand_formula(rng, natoms, depth):
    if depth == 0 or rng.random() < 0.2:
        i = rng.randrange(1, natoms + 1)
        if rng.random() < 0.05: return rng.choice([('T', lambda e: True), ('F', lambda e: False)])
        return ('a%d' % i, lambda e: e[i]) if rng.random() < 0.5 else ('n%d' % i, lambda e: not e[i])
    r = rng.random()
    if r < 0.25:
        t, f = rand_formula(rng, natoms, depth - 1); return ('N ' + t, lambda e: not f(e))
    t1, f1 = rand_formula(rng, natoms, depth - 1); t2, f2 = rand_formula(rng, natoms, depth - 1)
    if r < 0.62: return ('A %s %s' % (t1, t2), lambda e: f1(e) and f2(e))
    return ('O %s %s' % (t1, t2), lambda e: f1(e) or f2(e))

# ------------------------------------------------------------------ executable model of dnf.c (term order included)
# Used only to recognise the one recorded defect: dnfOrMerge cancels a term against the negation of a
# multi-literal term, (A & ~b & ~c) | (b & c) -> A | (b & c), which is not an equivalence.
TRUE_NF = [[]]; FALSE_NF = []
def m_is_true(x): return len(x) == 1 and len(x[0]) == 0
def m_lt(a, b): return abs(a) < abs(b)
def m_and_merge(x, y):
    if not x: return list(y)
    if not y: return list(x)
    r = []; i = j = 0
    while i < len(x) and j < len(y):
        if m_lt(x[i], y[j]): r.append(x[i]); i += 1
        elif m_lt(y[j], x[i]): r.append(y[j]); j += 1
        elif x[i] == y[j]: i += 1
        else: return None
    return r + x[i:] + y[j:]
def m_and_implies(x, y):
    if len(x) < len(y): return False
    i = j = 0
    while i < len(x) and j < len(y):
        if m_lt(x[i], y[j]): i += 1
        elif x[i] == y[j]: i += 1; j += 1
        else: return False
    return j == len(y)
def m_and_implies_neg(x, y):
    if len(x) < len(y): return False
    i = j = 0
    while i < len(x) and j < len(y):
        if m_lt(x[i], y[j]): i += 1
        elif x[i] == -y[j]: i += 1; j += 1
        else: return False
    return j == len(y)
def m_cancel_neg(x, y):
    r = []; i = j = 0
    while i < len(x) and j < len(y):
        if m_lt(x[i], y[j]): r.append(x[i]); i += 1
        elif x[i] == -y[j]: i += 1; j += 1
        else: raise AssertionError
    return r + x[i:]
def m_or_merge(xs):
    xs = list(xs)
    for i in range(len(xs)):
        for j in range(len(xs)):
            if i != j and xs[i] is not None and xs[j] is not None and m_and_implies(xs[i], xs[j]): xs[i] = None
            if i != j and xs[i] is not None and xs[j] is not None and m_and_implies_neg(xs[i], xs[j]): xs[i] = m_cancel_neg(xs[i], xs[j])
    return [t for t in xs if t is not None]
def m_or(x, y):
    if m_is_true(x) or m_is_true(y): return TRUE_NF
    if not x: return [list(t) for t in y]
    if not y: return [list(t) for t in x]
    return m_or_merge([list(t) for t in x] + [list(t) for t in y])
def m_and(x, y):
    if not x or not y: return FALSE_NF
    if m_is_true(x): return [list(t) for t in y]
    if m_is_true(y): return [list(t) for t in x]
    return m_or_merge([m_and_merge(a, b) for a in x for b in y])
def m_not(x):
    if not x: return TRUE_NF
    if m_is_true(x): return FALSE_NF
    r = TRUE_NF
    for t in x: r = m_and(r, [[-a] for a in t])
    return r
def m_eval(toks):
    t = toks.pop(0)
    if t[0] == 'a': return [[int(t[1:])]]
    if t[0] == 'n': return [[-int(t[1:])]]
    if t == 'T': return TRUE_NF
    if t == 'F': return FALSE_NF
    if t == 'N': return m_not(m_eval(toks))
    x = m_eval(toks); y = m_eval(toks)
    return m_and(x, y) if t == 'A' else m_or(x, y)
def m_show(nf):
    if m_is_true(nf): return 'T'
    if not nf: return 'F'
    return '|'.join(','.join(str(a) for a in t) if t else '()' for t in nf)

def parse_nf(s):
    if s == 'T': return [[]]
    if s == 'F': return []
    return [[int(x) for x in t.split(',')] if t != '()' else [] for t in s.split('|')]

def nf_eval(nf, e):
    return any(all((e[abs(l)] if l > 0 else not e[abs(l)]) for l in term) for term in nf)

def envs(natoms):
    for bits in itertools.product([False, True], repeat=natoms):
        yield (None,) + bits

def termwise_implies(x, y):
    return all(any(set(ty) <= set(tx) for ty in y) for tx in x)

def main():
    ctx = Ctx('C20', 'exploration', variants=('core', 'asan'))
    rng = ctx.rng
    ch = {'plain': harness(ctx, 'cont_h', 'plain'), 'asan': harness(ctx, 'cont_h', 'asan')}
    dh = {'plain': harness(ctx, 'dnf_h', 'plain'), 'asan': harness(ctx, 'dnf_h', 'asan')}
    nh = ctx.q(40, 400); steps = ctx.q(2500, 100000)
    jobs = []
    for mod in GENS:
        for i in range(nh):
            jobs.append((mod, i, rng.getrandbits(48)))
    stats = {}
    def work(job):
        mod, i, sd = job
        r = random.Random(sd)
        st = steps if mod in ('table', 'btree', 'priq') else min(steps, 5000)
        if ctx.tier == 'thorough' and i >= 40: st = min(st, 5000)       # a few very long ones, many medium
        hist = GENS[mod](r, st)
        variant = 'asan' if i % 3 == 2 else 'plain'
        text = '\n'.join(c for c, _ in hist) + '\n'
        p = run([ch[variant]], stdin=text.encode(), timeout=1800, env=ASAN_ENV, limit=1 << 30)
        lines = p.out.decode(errors='replace').split('\n')
        if lines and lines[-1] == '': lines.pop()
        ft = fault_text(p)
        res = compare(hist, lines)
        if p.rc != 0 or ft or p.timeout:
            at = hist[len(lines)][0] if len(lines) < len(hist) else '?'
            return job, ('fault', variant, at, '%s %s %s' % (p.cause, ft, san_signature(p)), text, p.err[-2000:].decode(errors='replace')), 0
        if res[0] is not None:
            idx, cmd, got, exp = res
            return job, ('mismatch', variant, cmd, 'step %d: got %r expected %r' % (idx, got, exp), '\n'.join(c for c, _ in hist[:idx + 1]) + '\n', ''), 0
        return job, None, res[1]
    import random
    nres = 0; per_mod = {}
    for job, bad, n in pmap(work, jobs, procs=True):
        mod = job[0]
        nres += n; per_mod[mod] = per_mod.get(mod, 0) + n
        if bad:
            kind, variant, cmd, what, text, err = bad
            opn = ' '.join(cmd.split(' ')[:2])
            ctx.violation('%s:%s:%s' % (kind, mod, opn), '%s build, history seed %d: %s %s' % (variant, job[2], cmd, what), files={'history.txt': text, 'stderr.txt': err})
    ctx.log('container histories done: %d results compared' % nres)
    ctx.sample({'module': 'table', 'first_commands': [c for c, _ in hist_table(random.Random(1), 12)][:14]})

    # ---------------- DNF
    forms = []
    if ctx.tier == 'quick':
        ex = dnf_formulas_exhaustive(2, 2)          # all formulas over 2 atoms to depth 2
        forms += [(t, f, 2) for t, f in ex]
        ex3 = dnf_formulas_exhaustive(3, 1)
        forms += [(t, f, 3) for t, f in ex3]
        for _ in range(6000): forms.append(rand_formula(rng, 3, rng.randint(2, 5)) + (3,))
        for _ in range(6000): forms.append(rand_formula(rng, 4, rng.randint(2, 6)) + (4,))
        for _ in range(2500): forms.append(rand_formula(rng, 10, rng.randint(3, 6)) + (10,))
    else:
        forms += [(t, f, 2) for t, f in dnf_formulas_exhaustive(2, 2)]
        forms += [(t, f, 3) for t, f in dnf_formulas_exhaustive(3, 1)]
        forms += [(t, f, 4) for t, f in dnf_formulas_exhaustive(4, 1)]
        for _ in range(150000): forms.append(rand_formula(rng, 3, rng.randint(2, 6)) + (3,))
        for _ in range(150000): forms.append(rand_formula(rng, 4, rng.randint(2, 7)) + (4,))
        for _ in range(40000): forms.append(rand_formula(rng, 10, rng.randint(3, 7)) + (10,))
    exhaustive_n = len(dnf_formulas_exhaustive(2, 2))
    ctx.log('dnf formulas: %d' % len(forms))
    ENV = {n: list(envs(n)) for n in (2, 3, 4, 10)}
    chunks = NCPU * 2
    def dwork(ci):
        part = forms[ci::chunks]
        variant = 'asan' if ci % 4 == 3 else 'plain'
        # D lines then R lines pairing neighbours
        lines_in = ['D ' + t for t, f, n in part]
        pairs = []
        for k in range(0, len(part) - 1, 2):
            if part[k][2] == part[k + 1][2]: pairs.append((part[k], part[k + 1]))
        lines_in += ['R %s ; %s' % (a[0], b[0]) for a, b in pairs]
        p = run([dh[variant]], stdin=('\n'.join(lines_in) + '\n').encode(), timeout=1800, env=ASAN_ENV, limit=1 << 30)
        out = p.out.decode(errors='replace').split('\n')
        bad = []
        if p.rc != 0 or fault_text(p) or p.timeout:
            at = lines_in[len(out) - 1] if len(out) - 1 < len(lines_in) else '?'
            bad.append(('dnf-fault:%s' % variant, '%s %s at %s' % (p.cause, san_signature(p), at), at))
            return bad, 0, 0, 0
        ntt = 0; nimp = 0; ninc = 0
        for (t, f, n), got in zip(part, out):
            try: nf = parse_nf(got)
            except ValueError: bad.append(('dnf-output', 'unparsable %r for %s' % (got, t), t)); continue
            ntt += 1
            for e in ENV[n]:
                if nf_eval(nf, e) != bool(f(e)):
                    # classify the one known wrong rewrite: a term cancelled against a multi-literal negation
                    try: same_as_model = (m_show(m_eval(t.split(' '))) == got)
                    except Exception: same_as_model = False
                    if same_as_model: bad.append(('dnf-not-equivalent:multi-literal-negation-cancel', 'formula %s -> %s differs at %s; the result is exactly what dnf.c\'s documented merge rules give (a term is cancelled against the negation of a multi-literal term)' % (t, got, e[1:]), t))
                    else: bad.append(('dnf-not-equivalent', 'formula %s -> %s differs at %s' % (t, got, e[1:]), t))
                    break
        for ((t1, f1, n), (t2, f2, _)), got in zip(pairs, out[len(part):]):
            fl = got.split(' ')
            if len(fl) < 5: bad.append(('dnf-output', 'bad R line %r' % got, t1)); continue
            imp, eq = fl[0] == '1', fl[1] == '1'
            x, y = parse_nf(fl[2]), parse_nf(fl[4])
            # judge against the printed normal forms' own truth tables (so that a wrong normal form is not counted twice)
            timp = all((not nf_eval(x, e)) or nf_eval(y, e) for e in ENV[n])
            teq = all(nf_eval(x, e) == nf_eval(y, e) for e in ENV[n])
            nimp += 1
            if imp and not timp: bad.append(('dnfImplies-unsound', '%s => %s reported true' % (fl[2], fl[4]), 'R %s ; %s' % (t1, t2)))
            if eq and not teq: bad.append(('dnfEqual-unsound', '%s == %s reported true' % (fl[2], fl[4]), 'R %s ; %s' % (t1, t2)))
            if timp and not imp:
                if termwise_implies(x, y): bad.append(('dnfImplies-misses-termwise', '%s => %s reported false though every term implies a term' % (fl[2], fl[4]), 'R %s ; %s' % (t1, t2)))
                else: ninc += 1; bad.append(('dnfImplies:incomplete:termwise', '%s => %s holds by truth table, reported false (term-wise test is only sufficient)' % (fl[2], fl[4]), 'R %s ; %s' % (t1, t2)))
            if teq and not eq and termwise_implies(x, y) and termwise_implies(y, x):
                bad.append(('dnfEqual-misses-termwise', '%s == %s reported false' % (fl[2], fl[4]), 'R %s ; %s' % (t1, t2)))
        return bad, ntt, nimp, ninc
    ntt = nimp = ninc = 0
    for bad, a, b_, c in pmap(dwork, range(chunks), procs=True):
        ntt += a; nimp += b_; ninc += c
        for key, what, inp in bad:
            ctx.violation(key, what, files={'input.txt': inp + '\n'})
    ctx.sample({'dnf': forms[exhaustive_n + 5][0], 'atoms': forms[exhaustive_n + 5][2]})
    distinct = len(set(t for t, _, _ in forms)) + len(jobs)
    ctx.assumptions += ['btreeDelete of an absent key, priqExtractMin on an empty queue and priqCheck with equal keys are outside the modules\' contracts and never issued',
                        'dnfImplies/dnfEqual: soundness is demanded; completeness beyond the documented term-wise test is a recorded finding, while missing a term-wise implication is a violation']
    ctx.finish(nres + ntt + nimp, distinct,
               'container: one evaluation = one operation result compared with the Python model; dnf: truth table of the normal form vs the formula (all assignments), implies/equal vs truth tables; distinct = distinct formulas + histories',
               extra={'container_results': per_mod, 'histories': len(jobs), 'steps_per_history': steps, 'dnf_formulas': ntt, 'dnf_relations': nimp,
                      'dnf_exhaustive': '2 atoms depth 2 (%d formulas), 3 atoms depth 1' % exhaustive_n, 'dnf_incomplete_implies_seen': ninc},
               min_eval=1000)

main_guard(main)
