"""Snapshot /repo's working tree and build the variants the checks need.

Layout of the cache ($VF_WORK, default /var/tmp/vf-aldor):
  <treehash>/src      scratch copy of the tracked files (as they are in the working tree)
  <treehash>/ok.*     stamp files, one per finished variant
  run/<pid>/          per-run scratch, removed at exit
"""
import hashlib, os, subprocess, sys, shutil, time, fcntl, json

REPO = os.environ.get('VF_REPO', '/repo')
WORK = os.environ.get('VF_WORK', '/var/tmp/vf-aldor')
GUARD = '-DALDOR_VERIF'
J = str(os.cpu_count() or 8)

ASAN_FLAGS = ('-O1 -g -fno-omit-frame-pointer -fsanitize=address,bounds '
              '-fno-sanitize-recover=all -DSTO_USE_MALLOC ' + GUARD)
PLAIN_FLAGS = '-O0 -g ' + GUARD

class BuildError(Exception):
    pass

def _tracked():
    out = subprocess.run(['git', '-C', REPO, 'ls-files', '-z'], check=True,
                         stdout=subprocess.PIPE).stdout
    files = [f for f in out.decode().split('\0') if f]
    return files

# generated autotools files that are not tracked but needed to configure
def _generated():
    res = []
    for root, dirs, files in os.walk(os.path.join(REPO, 'aldor')):
        rel = os.path.relpath(root, REPO)
        if '/.git' in rel or 'autom4te.cache' in rel:
            dirs[:] = []
            continue
        for f in files:
            if f in ('configure', 'Makefile.in', 'aclocal.m4') or rel.startswith('aldor/amaux') \
               or rel.startswith('aldor/m4'):
                res.append(os.path.join(rel, f))
    return res

SKIP_PREFIX = ('aldor/aldorug/', 'aldor/doc/', 'aldor/lib/algebra/', 'aldor/lib/ax0/',
               'aldor/lib/axldem/', 'aldor/lib/debuglib/', 'debian/', 'msvc/')

def tree_hash():
    h = hashlib.sha256()
    files = sorted(set(_tracked()))
    for f in files:
        if f.startswith(SKIP_PREFIX):
            continue
        p = os.path.join(REPO, f)
        h.update(f.encode() + b'\0')
        try:
            if os.path.islink(p):
                h.update(b'L' + os.readlink(p).encode())
            else:
                with open(p, 'rb') as fh:
                    h.update(hashlib.sha256(fh.read()).digest())
        except OSError:
            h.update(b'MISSING')
    return h.hexdigest()[:16]

def _run(cmd, cwd, log, env=None):
    t = time.time()
    with open(log, 'ab') as lf:
        lf.write(('\n$ %s   (cwd=%s)\n' % (cmd, cwd)).encode())
        lf.flush()
        r = subprocess.run(cmd, shell=True, cwd=cwd, stdout=lf, stderr=subprocess.STDOUT, env=env)
    if r.returncode != 0:
        tail = subprocess.run(['tail', '-40', log], stdout=subprocess.PIPE).stdout.decode(errors='replace')
        raise BuildError('build step failed: %s (cwd=%s)\n%s' % (cmd, cwd, tail))
    return time.time() - t

def _prune(keep):
    """Delete all cached trees except the `keep` most recently used (and the one in use)."""
    try:
        ents = []
        for d in os.listdir(WORK):
            p = os.path.join(WORK, d)
            if d == 'run' or not os.path.isdir(p):
                continue
            ents.append((os.path.getmtime(p), p))
        ents.sort(reverse=True)
        for _, p in ents[keep:]:
            shutil.rmtree(p, ignore_errors=True)
            try: os.unlink(p + '.lock')
            except OSError: pass
    except OSError:
        pass

class Build:
    def __init__(self, root, th):
        self.root = root            # <treehash>
        self.src = os.path.join(root, 'src')
        self.th = th
        self.B = os.path.join(self.src, 'aldor')          # top of autotools tree
        self.S = os.path.join(self.B, 'aldor', 'src')     # compiler sources / archives
        self.aldor = os.path.join(self.S, 'aldor')
        self.aldor_asan = os.path.join(self.B, 'aldor', 'src_asan', 'aldor')
        self.S_asan = os.path.join(self.B, 'aldor', 'src_asan')
        self.info = {}
        ip = os.path.join(root, 'info.json')
        if os.path.exists(ip):
            try: self.info = json.load(open(ip))
            except Exception: self.info = {}

    # common flags for the compiler
    def flags(self, lib='aldor'):
        B = self.B
        f = ['-Nfile=%s/aldor/src/aldor.conf' % B, '-Y%s/aldor/lib/libfoam/al' % B]
        if lib == 'aldor':
            f += ['-I%s/lib/aldor/include' % B, '-Y%s/lib/aldor/src' % B]
        elif lib == 'axllib':
            f += ['-I%s/lib/axllib/include' % B, '-Y%s/lib/axllib/src' % B]
        elif lib == 'foamlib':
            f += ['-I%s/aldor/lib/libfoamlib/al' % B, '-Y%s/aldor/lib/libfoamlib/al' % B,
                  '-I%s/aldor/lib/libfoamlib' % B, '-Y%s/aldor/lib/libfoamlib' % B]
        return f

    def link_libs(self, lib='aldor'):
        B = self.B
        if lib == 'aldor':
            return ['%s/lib/aldor/src/libaldor.a' % B, '%s/aldor/lib/libfoam/libfoam.a' % B, '-lm']
        if lib == 'axllib':
            return ['%s/lib/axllib/src/libaxllib.a' % B, '%s/aldor/lib/libfoam/libfoam.a' % B, '-lm']
        if lib == 'foamlib':
            return ['%s/aldor/lib/libfoamlib/libfoamlib.a' % B, '%s/aldor/lib/libfoam/libfoam.a' % B, '-lm']
        raise ValueError(lib)

def ensure(variants=('plain',), quiet=False):
    """Return a Build whose requested variants exist; builds them if needed.
    Raises BuildError if the tree does not build."""
    os.makedirs(WORK, exist_ok=True)
    th = tree_hash()
    root = os.path.join(WORK, th)
    lock = open(root + '.lock', 'w')
    fcntl.flock(lock, fcntl.LOCK_EX)
    try:
        os.makedirs(root, exist_ok=True)
        os.utime(root, None)
        _prune(2)
        b = Build(root, th)
        log = os.path.join(root, 'build.log')
        info = b.info
        def stamp(v): return os.path.join(root, 'ok.' + v)
        def say(m):
            if not quiet: print('[build %s] %s' % (th, m), file=sys.stderr, flush=True)
        # every variant needs the snapshot + configure + plain base
        need = list(variants)
        if not os.path.exists(stamp('plain')):
            say('snapshot + configure + plain build (about 2-3 min)')
            if os.path.exists(b.src): shutil.rmtree(b.src)
            os.makedirs(b.src)
            files = sorted(set(_tracked()) | set(_generated()))
            files = [f for f in files if not f.startswith(SKIP_PREFIX) and os.path.lexists(os.path.join(REPO, f))]
            lst = os.path.join(root, 'files.lst')
            with open(lst, 'w') as fh:
                fh.write('\n'.join(files) + '\n')
            subprocess.run(['rsync', '-a', '--files-from=' + lst, REPO + '/', b.src + '/'], check=True)
            # Makefile.in for skipped dirs are still needed by configure: copy them (tiny)
            for f in sorted(set(_generated())):
                if f.startswith(SKIP_PREFIX):
                    d = os.path.join(b.src, os.path.dirname(f)); os.makedirs(d, exist_ok=True)
                    shutil.copy2(os.path.join(REPO, f), os.path.join(b.src, f))
            t = {}
            mk = 'make -j%s CFLAGS="%s" ' % (J, PLAIN_FLAGS)
            t['configure'] = _run('CFLAGS=-Wno-error ./configure', b.B, log)
            t['tools'] = _run(mk + '-C aldor/tools', b.B, log)
            _run('make CFLAGS="%s" -C aldor/src comsgdb.c' % PLAIN_FLAGS, b.B, log)
            t['compiler'] = _run(mk + '-C aldor/src aldor libgen.a libport.a libstruct.a', b.B, log)
            t['subcmd'] = _run(mk + '-C aldor/subcmd', b.B, log)
            t['runtime'] = _run(mk + '-C aldor/lib', b.B, log)
            t['libaldor'] = _run(mk + '-C lib/aldor', b.B, log)
            t['libaxllib'] = _run(mk + '-C lib/axllib/src', b.B, log)
            info['plain'] = {'flags': PLAIN_FLAGS, 'wall_s': {k: round(v, 1) for k, v in t.items()}}
            open(stamp('plain'), 'w').write('ok\n')
        if 'asan' in need and not os.path.exists(stamp('asan')):
            say('asan compiler build')
            sa = b.S_asan
            if os.path.exists(sa): shutil.rmtree(sa)
            subprocess.run(['rsync', '-a', '--exclude=*.o', '--exclude=*.a', '--exclude=/aldor',
                            '--exclude=/test/', b.S + '/', sa + '/'], check=True)
            t = _run('make -j%s CFLAGS="%s" aldor libgen.a libport.a libstruct.a' % (J, ASAN_FLAGS), sa, log)
            info['asan'] = {'flags': ASAN_FLAGS, 'wall_s': round(t, 1)}
            open(stamp('asan'), 'w').write('ok\n')
        b.info = info
        json.dump(info, open(os.path.join(root, 'info.json'), 'w'), indent=1)
        return b
    finally:
        fcntl.flock(lock, fcntl.LOCK_UN)
        lock.close()

if __name__ == '__main__':
    vs = sys.argv[1:] or ['plain']
    if vs == ['--clean']:
        shutil.rmtree(WORK, ignore_errors=True); sys.exit(0)
    try:
        b = ensure(vs)
    except BuildError as e:
        print(e, file=sys.stderr); sys.exit(2)
    print(b.root)
