"""Snapshot /repo's working tree and build the variants the checks need.

Layout of the cache ($VF_WORK, default /var/tmp/vf-aldor):
  <treehash>/src      scratch copy of the tracked files (as they are in the working tree)
  <treehash>/ok.*     stamp files, one per finished variant
  run/<pid>/          per-run scratch, removed at exit
"""
import hashlib, os, subprocess, sys, shutil, time, fcntl, json

REPO = os.environ.get('VF_REPO', '/repo')
WORK = os.environ.get('VF_WORK', '/var/tmp/vf-aldor')
GUARD = '-DALDOR_VERIF'
J = str(os.cpu_count() or 8)

ASAN_FLAGS = ('-O1 -g -fno-omit-frame-pointer -fsanitize=address,bounds '
              '-fno-sanitize-recover=all -DSTO_USE_MALLOC ' + GUARD)
PLAIN_FLAGS = '-O0 -g ' + GUARD

class BuildError(Exception):
    pass

def _tracked():
    out = subprocess.run(['git', '-C', REPO, 'ls-files', '-z'], check=True,
                         stdout=subprocess.PIPE).stdout
    files = [f for f in out.decode().split('\0') if f]
    return files

# generated autotools files that are not tracked but needed to configure
def _generated():
    res = []
    for root, dirs, files in os.walk(os.path.join(REPO, 'aldor')):
        rel = os.path.relpath(root, REPO)
        if '/.git' in rel or 'autom4te.cache' in rel:
            dirs[:] = []
            continue
        for f in files:
            if f in ('configure', 'Makefile.in', 'aclocal.m4') or rel.startswith('aldor/amaux') \
               or rel.startswith('aldor/m4'):
                res.append(os.path.join(rel, f))
    return res

SKIP_PREFIX = ('aldor/aldorug/', 'aldor/doc/', 'aldor/lib/algebra/', 'aldor/lib/ax0/',
               'aldor/lib/axldem/', 'aldor/lib/debuglib/', 'debian/', 'msvc/')

def tree_hash():
    h = hashlib.sha256()
    files = sorted(set(_tracked()))
    for f in files:
        if f.startswith(SKIP_PREFIX):
            continue
        p = os.path.join(REPO, f)
        h.update(f.encode() + b'\0')
        try:
            if os.path.islink(p):
                h.update(b'L' + os.readlink(p).encode())
            else:
                with open(p, 'rb') as fh:
                    h.update(hashlib.sha256(fh.read()).digest())
        except OSError:
            h.update(b'MISSING')
    return h.hexdigest()[:16]

def _run(cmd, cwd, log, env=None):
    t = time.time()
    with open(log, 'ab') as lf:
        lf.write(('\n$ %s   (cwd=%s)\n' % (cmd, cwd)).encode())
        lf.flush()
        r = subprocess.run(cmd, shell=True, cwd=cwd, stdout=lf, stderr=subprocess.STDOUT, env=env)
    if r.returncode != 0:
        tail = subprocess.run(['tail', '-40', log], stdout=subprocess.PIPE).stdout.decode(errors='replace')
        raise BuildError('build step failed: %s (cwd=%s)\n%s' % (cmd, cwd, tail))
    return time.time() - t

class Build:
    def __init__(self, root, th):
        self.root = root            # <treehash>
        self.src = os.path.join(root, 'src')
        self.th = th
        self.B = os.path.join(self.src, 'aldor')          # top of autotools tree
        self.S = os.path.join(self.B, 'aldor', 'src')     # compiler sources / archives
        self.aldor = os.path.join(self.S, 'aldor')
        self.aldor_asan = os.path.join(self.B, 'aldor', 'src_asan', 'aldor')
        self.S_asan = os.path.join(self.B, 'aldor', 'src_asan')
        self.info = {}

    # common flags for the compiler
    def flags(self, lib='aldor'):
        B = self.B
        f = ['-Nfile=%s/aldor/src/aldor.conf' % B, '-Y%s/aldor/lib/libfoam/al' % B]
        if lib == 'aldor':
            f += ['-I%s/lib/aldor/include' % B, '-Y%s/lib/aldor/src' % B]
        elif lib == 'axllib':
            f += ['-I%s/lib/axllib/include' % B, '-Y%s/lib/axllib/src' % B]
        elif lib == 'foamlib':
            f += ['-I%s/aldor/lib/libfoamlib/al' % B, '-Y%s/aldor/lib/libfoamlib/al' % B,
                  '-I%s/aldor/lib/libfoamlib' % B, '-Y%s/aldor/lib/libfoamlib' % B]
        return f

    def link_libs(self, lib='aldor'):
        B = self.B
        if lib == 'aldor':
            return ['%s/lib/aldor/src/libaldor.a' % B, '%s/aldor/lib/libfoam/libfoam.a' % B, '-lm']
        if lib == 'axllib':
            return ['%s/lib/axllib/src/libaxllib.a' % B, '%s/aldor/lib/libfoam/libfoam.a' % B, '-lm']
        if lib == 'foamlib':
            return ['%s/aldor/lib/libfoamlib/libfoamlib.a' % B, '%s/aldor/lib/libfoam/libfoam.a' % B, '-lm']
        raise ValueError(lib)

def _snapshot(root, b, incremental):
    files = sorted(set(_tracked()) | set(_generated()))
    files = [f for f in files if not f.startswith(SKIP_PREFIX) and os.path.lexists(os.path.join(REPO, f))]
    lst = os.path.join(root, 'files.lst')
    prevfiles = []
    if incremental and os.path.exists(lst):
        prevfiles = [f for f in open(lst).read().split('\n') if f]
    with open(lst + '.new', 'w') as fh:
        fh.write('\n'.join(files) + '\n')
    r = subprocess.run(['rsync', '-a', '--checksum', '--itemize-changes', '--files-from=' + lst + '.new', REPO + '/', b.src + '/'],
                       check=True, stdout=subprocess.PIPE)
    changed = [l.split(' ', 1)[1] for l in r.stdout.decode().split('\n') if l[:2] in ('>f', 'cL')]
    for f in sorted(set(_generated())):
        if f.startswith(SKIP_PREFIX):
            d = os.path.join(b.src, os.path.dirname(f)); os.makedirs(d, exist_ok=True)
            if not os.path.exists(os.path.join(b.src, f)): shutil.copy2(os.path.join(REPO, f), os.path.join(b.src, f))
    if incremental:
        have = set(files)
        for f in prevfiles:       # a tracked file that disappeared from the working tree must disappear here too
            if f not in have:
                try: os.unlink(os.path.join(b.src, f)); changed.append(f)
                except OSError: pass
        now = time.time()
        for f in changed:
            try: os.utime(os.path.join(b.src, f), (now, now))
            except OSError: pass
    os.replace(lst + '.new', lst)
    return changed

_held = []   # keep the shared lock for the life of the process

def ensure(variants=('plain',), quiet=False):
    """Return a Build of /repo's current working tree with the requested variants; builds what is missing.
    variants: 'core' (compiler + archives), 'plain' (core + runtime and libraries built by that compiler),
    'asan' (second compiler + archives, malloc store, ASan/bounds).
    One build tree is kept ($VF_WORK/tree; the configured Makefiles hold absolute paths, so it cannot move) and is
    brought up to date in place: changed files are copied in and make rebuilds what depends on them; libraries and
    the asan copy are always rebuilt when any source changed.  Processes using the tree hold a shared lock; a rebuild
    takes the exclusive lock.  Raises BuildError if the tree does not build."""
    os.makedirs(WORK, exist_ok=True)
    th = tree_hash()
    root = os.path.join(WORK, 'tree')
    os.makedirs(root, exist_ok=True)
    lockpath = os.path.join(WORK, 'tree.lock')
    need = set(variants)
    if 'plain' in need or 'asan' in need: need.add('core')
    def say(m):
        if not quiet: print('[build %s] %s' % (th, m), file=sys.stderr, flush=True)
    def state():
        try: return json.load(open(os.path.join(root, 'state.json')))
        except Exception: return {}
    for attempt in range(100):
        lock = open(lockpath, 'w')
        fcntl.flock(lock, fcntl.LOCK_SH)
        st = state()
        if st.get('hash') == th and all(v in st.get('done', []) for v in need):
            _held.append(lock)
            b = Build(root, th); b.info = st.get('info', {})
            return b
        # need to build: upgrade to exclusive (release first to avoid deadlock between two upgraders)
        fcntl.flock(lock, fcntl.LOCK_UN)
        fcntl.flock(lock, fcntl.LOCK_EX)
        try:
            st = state()
            if st.get('hash') != th:
                st = _rebuild_core(root, th, st, say)
            b = Build(root, th)
            _build_variants(root, b, st, need, say)
        finally:
            fcntl.flock(lock, fcntl.LOCK_UN); lock.close()
    raise BuildError('could not obtain a stable build tree')

def _save(root, st):
    tmp = os.path.join(root, 'state.json.tmp')
    json.dump(st, open(tmp, 'w'), indent=1)
    os.replace(tmp, os.path.join(root, 'state.json'))

def _rebuild_core(root, th, st, say):
    b = Build(root, th)
    log = os.path.join(root, 'build.log')
    mk = 'make -j%s CFLAGS="%s" ' % (J, PLAIN_FLAGS)
    incremental = bool(st.get('hash')) and os.path.exists(os.path.join(b.B, 'config.status')) and not os.environ.get('VF_FULL_BUILD')
    for full in ((False, True) if incremental else (True,)):
        try:
            open(log, 'w').close()
            t = {}
            _save(root, {'hash': None, 'done': [], 'info': {}})      # tree is in flux
            if full:
                say('snapshot + configure + compiler (full build)')
                if os.path.exists(b.src): shutil.rmtree(b.src)
                os.makedirs(b.src)
                try: os.unlink(os.path.join(root, 'files.lst'))
                except OSError: pass
                changed = _snapshot(root, b, False)
                changed = None
                t['configure'] = _run('CFLAGS=-Wno-error ./configure', b.B, log)
            else:
                changed = _snapshot(root, b, True)
                say('incremental: %d changed files: %s' % (len(changed), ' '.join(changed[:6])))
                if any(os.path.basename(f) in ('configure', 'configure.ac', 'Makefile.in', 'Makefile.am', 'aclocal.m4') for f in changed):
                    raise BuildError('build system files changed: full rebuild')
                for sub in ('aldor/lib', 'lib/aldor', 'lib/axllib/src'):
                    subprocess.run('make clean', shell=True, cwd=os.path.join(b.B, sub), stdout=subprocess.DEVNULL, stderr=subprocess.DEVNULL)
                shutil.rmtree(b.S_asan, ignore_errors=True)
            t['tools'] = _run(mk + '-C aldor/tools', b.B, log)
            _run('make CFLAGS="%s" -C aldor/src comsgdb.c' % PLAIN_FLAGS, b.B, log)
            t['compiler'] = _run(mk + '-C aldor/src aldor libgen.a libport.a libstruct.a', b.B, log)
            t['subcmd'] = _run(mk + '-C aldor/subcmd', b.B, log)
            st = {'hash': th, 'done': ['core'], 'info': {'core': {'flags': PLAIN_FLAGS, 'incremental': not full,
                  'changed_files': changed[:20] if changed else changed, 'wall_s': {k: round(v, 1) for k, v in t.items()}}}}
            _save(root, st)
            return st
        except BuildError as e:
            if full: raise
            say('incremental build failed, retrying from scratch')
    raise BuildError('unreachable')

def _build_variants(root, b, st, need, say):
    log = os.path.join(root, 'build.log')
    mk = 'make -j%s CFLAGS="%s" ' % (J, PLAIN_FLAGS)
    if 'plain' in need and 'plain' not in st['done']:
        say('runtime + libraries with this compiler')
        t = {}
        t['runtime'] = _run(mk + '-C aldor/lib', b.B, log)
        t['libaldor'] = _run(mk + '-C lib/aldor', b.B, log)
        t['libaxllib'] = _run(mk + '-C lib/axllib/src', b.B, log)
        st['info']['plain'] = {'flags': PLAIN_FLAGS, 'wall_s': {k: round(v, 1) for k, v in t.items()}}
        st['done'].append('plain'); _save(root, st)
    if 'asan' in need and 'asan' not in st['done']:
        say('asan compiler build')
        sa = b.S_asan
        if os.path.exists(sa): shutil.rmtree(sa)
        subprocess.run(['rsync', '-a', '--exclude=*.o', '--exclude=*.a', '--exclude=/aldor',
                        '--exclude=/test/', b.S + '/', sa + '/'], check=True)
        t = _run('make -j%s CFLAGS="%s" aldor libgen.a libport.a libstruct.a' % (J, ASAN_FLAGS), sa, log)
        st['info']['asan'] = {'flags': ASAN_FLAGS, 'wall_s': round(t, 1)}
        st['done'].append('asan'); _save(root, st)

if __name__ == '__main__':
    vs = sys.argv[1:] or ['plain']
    if vs == ['--clean']:
        shutil.rmtree(WORK, ignore_errors=True); sys.exit(0)
    try:
        b = ensure(vs)
    except BuildError as e:
        print(e, file=sys.stderr); sys.exit(2)
    print(b.root)
