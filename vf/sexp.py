"""Minimal S-expression reader for FOAM text (.fm) and generated Lisp: enough to compare two files by structure and to
fold the portable re-expression of wide machine integers back into a literal."""
import re
TOK = re.compile(r'''\s+|;[^\n]*|(\()|(\))|("(?:[^"\\]|\\.)*")|(\|(?:[^|\\]|\\.)*\|[^\s()]*)|([^\s()"]+)''')

def parse(text):
    stack = [[]]
    for m in TOK.finditer(text):
        if m.group(1): stack.append([])
        elif m.group(2):
            if len(stack) == 1: raise ValueError('unbalanced )')
            x = stack.pop(); stack[-1].append(x)
        else:
            t = m.group(3) or m.group(4) or m.group(5)
            if t is not None: stack[-1].append(t)
    if len(stack) != 1: raise ValueError('unbalanced (')
    return stack[0]

def _int(x):
    try: return int(x)
    except (TypeError, ValueError): return None

def fold_fm(x):
    """(BCall SIntOr (BCall SIntShiftUp (SInt a) (SInt b)) (SInt c)) -> (SInt v), bottom-up; also SIntPlus/SIntTimes/SIntNegate of literals"""
    if not isinstance(x, list): return x
    x = [fold_fm(e) for e in x]
    def lit(e): return _int(e[1]) if isinstance(e, list) and len(e) == 2 and e[0] == 'SInt' else None
    if len(x) >= 3 and x[0] == 'BCall' and isinstance(x[1], str):
        op = x[1]; args = [lit(a) for a in x[2:]]
        if all(a is not None for a in args):
            if op == 'SIntShiftUp' and len(args) == 2: return ['SInt', str(args[0] << args[1])]
            if op == 'SIntOr' and len(args) == 2: return ['SInt', str(args[0] | args[1])]
            if op == 'SIntPlus' and len(args) == 2: return ['SInt', str(args[0] + args[1])]
            if op == 'SIntNegate' and len(args) == 1: return ['SInt', str(-args[0])]
    return x

def fold_lisp(x):
    if not isinstance(x, list): return x
    x = [fold_lisp(e) for e in x]
    def lit(e): return _int(e[2]) if isinstance(e, list) and len(e) == 3 and e[0] == 'the' and e[1] == '|SInt|' else None
    if len(x) >= 2 and isinstance(x[0], str):
        op = x[0]; args = [lit(a) for a in x[1:]]
        if args and all(a is not None for a in args):
            if op == '|SIntShiftUp|' and len(args) == 2: return ['the', '|SInt|', str(args[0] << args[1])]
            if op == '|SIntOr|' and len(args) == 2: return ['the', '|SInt|', str(args[0] | args[1])]
            if op == '|SIntPlus|' and len(args) == 2: return ['the', '|SInt|', str(args[0] + args[1])]
            if op == '|SIntNegate|' and len(args) == 1: return ['the', '|SInt|', str(-args[0])]
    return x

CWIDE = re.compile(r'(-?\d+)L<<(\d+)L\|(-?\d+)L')
CPAREN = re.compile(r'\((-?\d+L)\)')
def canon_c(text):
    """C text with all white space removed and the portable form of wide integers, (1L << 31L | 0L), folded back to a literal"""
    text = re.sub(r'\s+', '', text)
    for _ in range(6):
        t2 = CWIDE.sub(lambda m: '%dL' % ((int(m.group(1)) << int(m.group(2))) | int(m.group(3))), text)
        t2 = CPAREN.sub(r'\1', t2)
        if t2 == text: break
        text = t2
    return text
