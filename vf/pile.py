"""Abstract programs with two renderings: brace-and-semicolon, and indentation-structured (#pile).

Only the parser is exercised (-Fap), so programs need not type-check.  A program is a Block; a Block is a list of statements:
  ('s', [tokens])                          one simple statement (no top-level `;')
  ('seq1', [[tokens], [tokens], ...])      several simple statements which the piled rendering writes on ONE line, `a; b'
  ('if', [cond tokens], Block, Block|None)
  ('while', [cond tokens], Block)          ('for', [header tokens], Block)
  ('def', [head tokens ending with ==], Block)
  ('dom', [head tokens ending with with], Block of signatures, Block of definitions)    D: with <sigs> == add <defs>
  ('try', Block, Block, Block|None)        try <block> catch E in <block> [finally <block>]

The pile rules rendered (linear.c): lines at one indentation are joined with `;' and wrapped in braces; a single more-indented line
is a one-line pile only after then/else/with/add/try/finally (isPileRequired) and otherwise simply continues the previous line.  So
  * after a pile-forming keyword a block of any length may be written as a pile, and a `seq1' statement alone is `{ a; b }';
  * after `==' and `repeat' a one-statement block is written without braces in the braced rendering too (the piled form is a
    continuation line), and such a block never consists of a lone `seq1'.
"""
import random

IDS = ['a', 'b', 'k', 'n', 'acc', 'x1', 'tmp', 'lst']
TYPES = ['Integer', 'MachineInteger', 'Boolean', 'String', 'List Integer']

class PGen:
    def __init__(self, seed):
        self.r = random.Random(seed)
        self.nfun = 0
        self.kinds = set()

    def expr(self, d=0):
        r = self.r
        k = r.random()
        if d > 2 or k < 0.3: return [r.choice(IDS)] if r.random() < 0.6 else [str(r.randint(0, 99))]
        if k < 0.6: return self.expr(d + 1) + [r.choice(['+', '-', '*', 'quo', 'rem'])] + self.expr(d + 1)
        if k < 0.75: return ['('] + self.expr(d + 1) + [')']
        if k < 0.9: return ['f%d' % r.randint(0, 3), '('] + self.expr(d + 1) + ([',', ] + self.expr(d + 1) if r.random() < 0.5 else []) + [')']
        return ['(', '#', r.choice(IDS), ')']       # never first on a line: `#' in column 1 starts a system command

    def cond(self):
        r = self.r
        c = self.expr(1) + [r.choice(['<', '>', '=', '~=', '<=', '>='])] + self.expr(1)
        if r.random() < 0.2: c = c + [r.choice(['and', 'or'])] + self.expr(2) + ['<'] + self.expr(2)
        return c

    def simple(self, ordinary_only=False):
        """one simple statement; the non-ordinary ones (declarations) are where one-line piles and continuation lines differ"""
        r = self.r
        k = r.random()
        if k < 0.35: s = [r.choice(IDS), ':='] + self.expr(); kd = 'assign'
        elif k < 0.5: s = ['f%d' % r.randint(0, 3), '('] + self.expr() + [')']; kd = 'call'
        elif k < 0.6: s = ['stdout', '<<'] + self.expr(1) + ['<<', 'newline']; kd = 'output'
        elif k < 0.68: s = [r.choice(IDS), ':', r.choice(TYPES), ':='] + self.expr(); kd = 'decl-assign'
        elif ordinary_only: s = ['return'] + self.expr(1); kd = 'return'
        elif k < 0.74: s = ['local', r.choice(IDS), ':', r.choice(TYPES), ':='] + self.expr(1); kd = 'local'
        elif k < 0.79: s = ['free', r.choice(IDS)]; kd = 'free'
        elif k < 0.86: s = ['import', 'from', r.choice(['Integer', 'MachineInteger', 'String', 'List Integer'])]; kd = 'import'
        elif k < 0.9: s = ['(', r.choice(IDS), ',', r.choice(IDS), ')', ':=', '('] + self.expr(1) + [','] + self.expr(1) + [')']; kd = 'multi-assign'
        elif k < 0.94: s = ['return'] + self.expr(1); kd = 'return'
        elif k < 0.97: s = self.cond() + ['=>'] + self.expr(1); kd = 'exit'
        else: s = ['macro', 'M%d' % r.randint(0, 9), '==', r.choice(IDS)]; kd = 'macro'
        self.kinds.add(kd)
        return ('s', s, kd)

    def stmt(self, depth):
        r = self.r
        k = r.random()
        if depth >= 3 or k < 0.5:
            if r.random() < 0.15:
                self.kinds.add('seq1')
                return ('seq1', [self.simple()[1] for _ in range(r.randint(2, 3))])
            return self.simple()
        if k < 0.72:
            self.kinds.add('if')
            return ('if', self.cond(), self.block(depth + 1), self.block(depth + 1) if r.random() < 0.6 else None)
        if k < 0.82: self.kinds.add('while'); return ('while', self.cond(), self.block(depth + 1))
        if k < 0.92: self.kinds.add('for'); return ('for', [r.choice(['i', 'j']), 'in', '1', '..'] + self.expr(2), self.block(depth + 1))
        self.kinds.add('try'); return ('try', self.block(depth + 1), self.block(depth + 1), self.block(depth + 1) if r.random() < 0.6 else None)

    def block(self, depth, n=None):
        r = self.r
        n = n or r.choice([1, 1, 1, 2, 2, 3, 4])
        return [self.stmt(depth) for _ in range(n)]

    def fundef(self, depth=0):
        r = self.r
        self.nfun += 1
        head = ['g%d' % self.nfun, '(', r.choice(IDS), ':', r.choice(TYPES), ')', ':', r.choice(TYPES), '==']
        self.kinds.add('def')
        return ('def', head, self.block(depth + 1))

    def domain(self):
        r = self.r
        self.kinds.add('dom')
        sigs = [('s', ['op%d' % i, ':', '%', '->', r.choice(TYPES)], 'sig') for i in range(r.randint(1, 3))]
        defs = [('s', ['Rep', '==', 'Integer'], 'repdef')] + [self.fundef(1) for _ in range(r.randint(1, 2))]
        if r.random() < 0.5: defs.insert(1, ('s', ['import', 'from', 'Rep'], 'import'))
        return ('dom', ['D%d' % r.randint(0, 99), ':', 'with'], sigs, defs)

    def program(self):
        r = self.r
        top = []
        for _ in range(r.randint(2, 5)):
            k = r.random()
            if k < 0.6: top.append(self.fundef())
            elif k < 0.75: top.append(self.domain())
            else: top.append(self.stmt(1))
        return top

PILE_KW = True      # block follows then/else/with/add/try/finally
CONT = False        # block follows == / repeat

ORDINARY = ('assign', 'call', 'output', 'decl-assign', 'return')
def fix(block, ctx=PILE_KW):
    """enforce the renderable discipline: a one-statement block after == / repeat / in is a continuation line in the piled
    rendering, so it must be a statement that may stand there without braces (an ordinary one or a compound one); otherwise the
    block gets a second statement and becomes a two-line pile"""
    out = []
    for st in block:
        k = st[0]
        if k == 'if': st = ('if', st[1], fix(st[2], PILE_KW), fix(st[3], PILE_KW) if st[3] is not None else None)
        elif k in ('while', 'for'): st = (k, st[1], fix(st[2], CONT))
        elif k == 'def': st = ('def', st[1], fix(st[2], CONT))
        elif k == 'dom': st = ('dom', st[1], fix(st[2], PILE_KW), fix(st[3], PILE_KW))
        elif k == 'try': st = ('try', fix(st[1], PILE_KW), fix(st[2], 'catch'), fix(st[3], PILE_KW) if st[3] is not None else None)
        out.append(st)
    if ctx == CONT and len(out) == 1 and (out[0][0] == 'seq1' or (out[0][0] == 's' and out[0][2] not in ORDINARY)):
        out.append(('s', ['zz', ':=', '0'], 'assign'))
    # after `catch E in' the grammar wants a collection, not a statement: a lone line there is never written without braces
    if ctx == 'catch' and len(out) == 1: out.append(('s', ['zz', ':=', '0'], 'assign'))
    return out

def make(seed):
    g = PGen(seed)
    return fix(g.program(), PILE_KW), g.kinds

# ---------------------------------------------------------------- renderings
def join(toks, sp):
    """tokens to text; sp() gives the white space between two tokens (at least one blank)"""
    out = ''
    for i, t in enumerate(toks):
        if i: out += sp()
        out += t
    return out

def braced(prog, sp=lambda: ' ', ind='\t'):
    """every block in braces, statements end with `;'; a seq1 statement is the nested sequence { a; b }"""
    lines = []
    def blk(block, depth):
        for st in block: emit(st, depth)
    def emit(st, depth):
        k = st[0]
        I = ind * depth
        if k == 's': lines.append(I + join(st[1], sp) + ';')
        elif k == 'seq1': lines.append(I + '{' + sp() + (';' + sp()).join(join(t, sp) for t in st[1]) + sp() + '};')
        elif k == 'if':
            lines.append(I + 'if' + sp() + join(st[1], sp) + sp() + 'then' + sp() + '{')
            blk(st[2], depth + 1)
            if st[3] is not None:
                lines.append(I + '}' + sp() + 'else' + sp() + '{')
                blk(st[3], depth + 1)
            lines.append(I + '};')
        elif k in ('while', 'for'):
            lines.append(I + k + sp() + join(st[1], sp) + sp() + 'repeat' + sp() + '{')
            blk(st[2], depth + 1); lines.append(I + '};')
        elif k == 'def':
            lines.append(I + join(st[1], sp) + sp() + '{')
            blk(st[2], depth + 1); lines.append(I + '};')
        elif k == 'dom':
            lines.append(I + join(st[1], sp) + sp() + '{')
            blk(st[2], depth + 1)
            lines.append(I + '}' + sp() + '==' + sp() + 'add' + sp() + '{')
            blk(st[3], depth + 1)
            lines.append(I + '};')
        elif k == 'try':
            lines.append(I + 'try' + sp() + '{')
            blk(st[1], depth + 1)
            lines.append(I + '}' + sp() + 'catch' + sp() + 'E' + sp() + 'in' + sp() + '{')
            blk(st[2], depth + 1)
            if st[3] is not None:
                lines.append(I + '}' + sp() + 'finally' + sp() + '{')
                blk(st[3], depth + 1)
            lines.append(I + '};')
    for st in prog: emit(st, 0)
    return '\n'.join(lines) + '\n'

def piled_template(prog, sp=lambda: ' '):
    """list of (depth, text) lines of the #pile rendering"""
    L = []
    def blk(block, depth):
        for st in block: emit(st, depth)
    def emit(st, depth):
        k = st[0]
        if k == 's': L.append((depth, join(st[1], sp)))
        elif k == 'seq1': L.append((depth, (';' + sp()).join(join(t, sp) for t in st[1])))
        elif k == 'if':
            L.append((depth, 'if' + sp() + join(st[1], sp) + sp() + 'then')); blk(st[2], depth + 1)
            if st[3] is not None: L.append((depth, 'else')); blk(st[3], depth + 1)
        elif k == 'while': L.append((depth, 'while' + sp() + join(st[1], sp) + sp() + 'repeat')); blk(st[2], depth + 1)
        elif k == 'for': L.append((depth, 'for' + sp() + join(st[1], sp) + sp() + 'repeat')); blk(st[2], depth + 1)
        elif k == 'def': L.append((depth, join(st[1], sp))); blk(st[2], depth + 1)
        elif k == 'dom':
            L.append((depth, join(st[1], sp))); blk(st[2], depth + 1)
            L.append((depth, '==' + sp() + 'add')); blk(st[3], depth + 1)
        elif k == 'try':
            L.append((depth, 'try')); blk(st[1], depth + 1)
            L.append((depth, 'catch' + sp() + 'E' + sp() + 'in')); blk(st[2], depth + 1)
            if st[3] is not None: L.append((depth, 'finally')); blk(st[3], depth + 1)
    for st in prog: emit(st, 0)
    return L

def indent(cols, tabs):
    if tabs: return '\t' * (cols // 8) + ' ' * (cols % 8)
    return ' ' * cols

def piled(prog, rng, width=None, tabs=None, noise=None, spacing=None):
    """one #pile rendering: indentation width 1..8, tabs or spaces, comment/blank lines at line boundaries, random token spacing"""
    width = width or rng.randint(1, 8)
    tabs = rng.random() < 0.4 if tabs is None else tabs
    noise = rng.random() < 0.6 if noise is None else noise
    spacing = rng.random() < 0.5 if spacing is None else spacing
    sp = (lambda: rng.choice([' ', ' ', '  ', ' \t', '   '])) if spacing else (lambda: ' ')
    out = ['#pile']
    for depth, text in piled_template(prog, sp):
        if noise and rng.random() < 0.5:
            k = rng.random()
            if k < 0.4: out.append('')
            elif k < 0.8: out.append(indent(rng.randint(0, 20), tabs) + rng.choice(['-- layout noise', '-- noise ending in the escape character _', '-- noise _  ']))
            else: out.append(' \t  ')
        out.append(indent(depth * width, tabs) + text + (rng.choice(['', ' ', '\t', '  -- trailing', '  -- trailing _', '  -- trailing _ ']) if noise else ''))
    if noise: out.append('-- end')
    return '\n'.join(out) + '\n', {'width': width, 'tabs': tabs, 'noise': noise, 'spacing': spacing}

def braced_variant(prog, rng):
    spacing = rng.random() < 0.6
    sp = (lambda: rng.choice([' ', ' ', '  ', ' \t', '\n\t', '   '])) if spacing else (lambda: ' ')
    ind = rng.choice(['\t', ' ', '    ', ''])
    text = braced(prog, sp, ind)
    if rng.random() < 0.5:
        ls = text.split('\n'); out = []
        for l in ls:
            if rng.random() < 0.3: out.append(rng.choice(['', '-- noise', '   \t', '-- noise _', '-- noise _ ']))
            out.append(l)
        text = '\n'.join(out)
    return text
