"""The pinned corpus: lib/axllib/test/<n>/<n>.as (library axllib) and lib/aldor/test/<n>/<n>.as (library aldor)."""
import os, re

def sources(b, libs=('axllib', 'aldor')):
    res = []
    for lib in libs:
        d = os.path.join(b.B, 'lib', lib, 'test')
        if not os.path.isdir(d): continue
        for n in sorted(os.listdir(d)):
            p = os.path.join(d, n, n + '.as')
            if os.path.isfile(p):
                res.append({'name': n, 'path': p, 'lib': lib, 'dir': os.path.join(d, n)})
    return res

def runnable(src):
    """corpus convention: a '--> testrun' / '--> testint' comment marks programs meant to be executed"""
    try: head = open(src['path'], errors='replace').read(4000)
    except OSError: return False
    return bool(re.search(r'^--> test(run|int)', head, re.M))
