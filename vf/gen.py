"""Typed abstract Aldor programs: generator, renderer (braced text) and an independent reference evaluator.

The subset (calibrated on the unchanged tree, DESIGN.md 6a): MachineInteger and Integer arithmetic with truncating
quo/rem, booleans, strings, lists, records, unions, pure functions with recursion, early exit (=>), return from loops,
while/for loops with break/iterate, closures, generators, overloading by argument type, macros with and without
parameter, a category with a default method, two domains (one overriding the default), a parametrised domain, and
constant exception domains with try/catch/finally.

Discipline that keeps the oracle sound: every literal is type-pinned in the rendering; functions are pure (only main
statements print or assign globals), so evaluation order cannot be observed; a program is discarded (Discard) before the
compiler ever sees it if a MachineInteger intermediate leaves 62 bits, a divisor is zero, a list/array index is out of
range, first/rest hits an empty list, or the step budget runs out."""
import random

MI, INT, BOOL, STR, LMI = 'MI', 'INT', 'BOOL', 'STR', 'LMI'
TYNAME = {MI: 'MI', INT: 'INT', BOOL: 'Boolean', STR: 'String', LMI: 'List MI'}
LIM = 1 << 62

class Discard(Exception): pass
class _Break(Exception): pass
class _Iterate(Exception): pass
class _Return(Exception):
    def __init__(self, v): self.v = v
class _Throw(Exception):
    def __init__(self, name): self.name = name

HEADER = '''#include "aldor"
#include "aldorio"
macro MI == MachineInteger;
macro INT == Integer;
import from MI, INT, Boolean, String, List MI;
pM(x: MI): () == stdout << x << newline;
pI(x: INT): () == stdout << x << newline;
pB(x: Boolean): () == stdout << x << newline;
pS(x: String): () == stdout << x << newline;
pL(x: List MI): () == stdout << x << newline;
'''
PRINTER = {MI: 'pM', INT: 'pI', BOOL: 'pB', STR: 'pS', LMI: 'pL'}

def tdiv(a, b):
    q = abs(a) // abs(b)
    if (a < 0) != (b < 0): q = -q
    return q, a - q * b

# ============================================================================ generator
class Gen:
    def __init__(self, seed, size=None, features=None):
        self.r = random.Random(seed)
        self.size = size or self.r.choice([6, 10, 16, 24])
        allf = ['funcs', 'recursion', 'closures', 'generators', 'overload', 'macros', 'domains', 'exceptions', 'records', 'unions', 'lists', 'bignum', 'strings', 'earlyexit', 'loops']
        if features is None:
            k = self.r.randint(4, len(allf))
            features = set(self.r.sample(allf, k))
        self.feat = set(features)
        if 'fluids' in self.feat: self.feat.discard('exceptions')     # recorded finding C01 witness:fluid-catch-then-toplevel-try
        self.funcs = {}       # name -> (param types, ret type)
        self.top = []         # rendered-order top-level items (AST)
        self.globals = {}     # name -> type
        self.n = 0
        self.tags = set()
        self.consts = {}      # domain pack constants
        self.macros = {}      # name -> body expr (param 'x') ; ZQK consts
        self.recs = {}; self.unis = {}
        self.mk = {}; self.gens = {}; self.over = {}; self.thr = {}

    def utag(self, un, T):
        """a branch tag of union variable un holding type T.  Shape 1 is Union(i: MI, t: String); shape 2 (feature
        'taggedunion', only when asked for explicitly) is Union(lo: MI, hi: MI, nm: String), built with [tag == value]"""
        if self.unis[un] == 2: return self.r.choice(['lo', 'hi']) if T == MI else 'nm'
        return 'i' if T == MI else 't'

    def fresh(self, p):
        self.n += 1
        return 'zq%s%d' % (p, self.n)

    # ---------------------------------------------------------------- literals
    def lit(self, T):
        r = self.r
        if T == MI:
            v = r.choice([0, 1, 2, 3, 5, 7, 10, -1, -2, -7, 13, 100, 255, 256, 1000, 65535, 2**31 - 1, 2**31, -2**31, 2**40 + 3, r.randint(-50, 50), r.randint(-10**6, 10**6)])
            if abs(v) >= getattr(self, 'mi_lit_max', 1 << 62): v = v % 1000003
            return ('lit', MI, v)
        if T == INT: return ('lit', INT, r.choice([0, 1, -1, 2, 10, 2**31, 2**32 + 1, 2**63, 2**64 - 1, -(2**64), 10**20, 10**30 + 7, -(10**25), r.randint(-10**40, 10**40), r.randint(-100, 100)]))
        if T == BOOL: return ('lit', BOOL, r.choice([True, False]))
        if T == STR:
            alphabet = 'abcXYZ 09_"-+*/(){};:,.'
            s = ''.join(r.choice(alphabet) for _ in range(r.choice([0, 1, 3, 8, 20])))
            return ('lit', STR, s)
        if T == LMI: return ('listlit', [self.lit(MI) for _ in range(r.randint(0, 4))])
        raise KeyError(T)

    # ---------------------------------------------------------------- expressions
    def expr(self, T, scope, d):
        if getattr(self, 'plain', 0): return self.expr_plain(T, scope, d)
        return self.expr_full(T, scope, d)

    def cond(self, scope, d):
        """condition of an if-expression: kept free of category-default, overloaded, record/union and macro sub-expressions
        (avoid list: the unchanged tree rejects some of those inside conditional contexts)"""
        self.plain = getattr(self, 'plain', 0) + 1
        try: return self.expr_full(BOOL, {n: t for n, t in scope.items() if t in (MI, INT, BOOL, STR, LMI)}, d)
        finally: self.plain -= 1

    def expr_plain(self, T, scope, d):
        save = (self.macros, self.consts, self.mk, self.over, self.recs, self.unis)
        self.macros, self.consts, self.mk, self.over, self.recs, self.unis = {}, {}, {}, {}, {}, {}
        try: return self.expr_full(T, scope, d)
        finally: self.macros, self.consts, self.mk, self.over, self.recs, self.unis = save

    def expr_full(self, T, scope, d):
        r = self.r
        vars_T = [n for n, t in scope.items() if t == T]
        if d <= 0 or r.random() < 0.2:
            if vars_T and r.random() < 0.7: return ('var', r.choice(vars_T), T)
            return self.lit(T)
        c = r.random()
        if T == MI:
            if c < 0.30:
                op = r.choice(['+', '-', '*', '+', '-'])
                return ('bin', op, MI, self.expr(MI, scope, d - 1), self.expr(MI, scope, d - 1))
            if c < 0.40:
                op = r.choice(['quo', 'rem'])
                dv = ('lit', MI, r.choice([1, 2, 3, 7, 10, -2, -3, 16, 255]))
                return ('bin', op, MI, self.expr(MI, scope, d - 1), dv)
            if c < 0.45: return ('neg', MI, self.expr(MI, scope, d - 1))
            if c < 0.52: return ('if', MI, self.cond(scope, d - 1), self.expr(MI, scope, d - 1), self.expr(MI, scope, d - 1))
            if c < 0.66:
                fs = [f for f, (ps, rt) in self.funcs.items() if rt == MI]
                if fs:
                    f = r.choice(fs); self.tags.add('call')
                    return ('call', f, [self.small_arg(pt, scope, d - 1) for pt in self.funcs[f][0]], MI)
            if c < 0.70 and 'lists' in self.feat: self.tags.add('list'); return ('len', self.expr(LMI, scope, d - 1))
            if c < 0.73 and 'strings' in self.feat: return ('slen', self.expr(STR, scope, d - 1))
            if c < 0.78 and self.macros:
                m = r.choice(sorted(self.macros)); self.tags.add('macro')
                if self.macros[m] is None: return ('mconst', m)
                return ('macro', m, self.pure_small(MI, scope, d - 1))
            if c < 0.84 and self.consts:
                self.tags.add('domain')
                return ('dom', r.choice(['twiceA', 'twiceB', 'getA', 'getB', 'valA', 'valB']), self.small_arg(MI, scope, d - 1))
            if c < 0.88 and self.mk:
                self.tags.add('closure')
                m = r.choice(sorted(self.mk))
                return ('clos', m, self.small_arg(MI, scope, 1), self.small_arg(MI, scope, 1), r.random() < 0.5)
            if c < 0.91 and self.over:
                self.tags.add('overload'); o = r.choice(sorted(self.over))
                if r.random() < 0.5: return ('ocall', o, MI, self.small_arg(MI, scope, d - 1))
                return ('ocall', o, STR, self.expr(STR, scope, 1))
            if c < 0.94 and self.recs:
                rn = r.choice(sorted(self.recs));
                if rn in scope: return ('recfld', rn, 'p', MI)
            if c < 0.96 and self.unis:
                un = r.choice(sorted(self.unis))
                if un in scope:
                    tg = self.utag(un, MI)
                    return ('if', MI, ('ucase', un, tg), ('ufld', un, tg, MI), self.lit(MI))
            return ('bin', r.choice(['+', '-']), MI, self.expr(MI, scope, d - 1), self.lit(MI))
        if T == INT:
            self.tags.add('bignum')
            if c < 0.35: return ('bin', r.choice(['+', '-', '*']), INT, self.expr(INT, scope, d - 1), self.expr(INT, scope, d - 1))
            if c < 0.45:
                dv = ('lit', INT, r.choice([1, 2, 3, 7, -3, 10**9 + 7, 2**32, -(2**33) + 1, 10**20 + 3]))
                return ('bin', r.choice(['quo', 'rem']), INT, self.expr(INT, scope, d - 1), dv)
            if c < 0.55: return ('conv', self.expr(MI, scope, d - 1))
            if c < 0.62: return ('pow', self.expr(INT, scope, d - 2), r.choice([0, 1, 2, 3, 5]))
            if c < 0.68: return ('neg', INT, self.expr(INT, scope, d - 1))
            if c < 0.80:
                fs = [f for f, (ps, rt) in self.funcs.items() if rt == INT]
                if fs:
                    f = r.choice(fs); self.tags.add('call')
                    return ('call', f, [self.small_arg(pt, scope, d - 1) for pt in self.funcs[f][0]], INT)
            if c < 0.85: return ('if', INT, self.cond(scope, d - 1), self.expr(INT, scope, d - 1), self.expr(INT, scope, d - 1))
            if c < 0.9 and self.recs:
                rn = r.choice(sorted(self.recs))
                if rn in scope: return ('recfld', rn, 'q', INT)
            return self.lit(INT)
        if T == BOOL:
            if c < 0.45:
                TT = r.choice([MI, MI, INT] if 'bignum' in self.feat else [MI])
                return ('cmp', r.choice(['=', '~=', '<', '<=', '>', '>=']), self.expr(TT, scope, d - 1), self.expr(TT, scope, d - 1), TT)
            if c < 0.6: return (r.choice(['and', 'or']), self.expr(BOOL, scope, d - 1), self.expr(BOOL, scope, d - 1))
            if c < 0.7: return ('not', self.expr(BOOL, scope, d - 1))
            if c < 0.78 and 'lists' in self.feat: return ('empty', self.expr(LMI, scope, d - 1))
            if c < 0.84 and self.unis:
                un = r.choice(sorted(self.unis))
                if un in scope: self.tags.add('union'); return ('ucase', un, self.utag(un, r.choice([MI, STR])))
            if c < 0.9 and 'strings' in self.feat: return ('cmp', r.choice(['=', '~=']), self.expr(STR, scope, d - 1), self.expr(STR, scope, d - 1), STR)
            return self.lit(BOOL)
        if T == STR:
            self.tags.add('string')
            if c < 0.4: return ('concat', self.expr(STR, scope, d - 1), self.expr(STR, scope, d - 1))
            if c < 0.5: return ('if', STR, self.cond(scope, d - 1), self.expr(STR, scope, d - 1), self.expr(STR, scope, d - 1))
            if c < 0.6 and self.unis:
                un = r.choice(sorted(self.unis))
                if un in scope:
                    tg = self.utag(un, STR)
                    return ('if', STR, ('ucase', un, tg), ('ufld', un, tg, STR), self.lit(STR))
            return self.lit(STR)
        if T == LMI:
            self.tags.add('list')
            if c < 0.3:
                els = [self.expr(MI, scope, d - 1) for _ in range(r.randint(0, 4))]
                # avoid list: a one-element list literal whose element is an if-expression faults at run time on the unchanged tree (known finding C01 singleton-list-of-if)
                if len(els) == 1 and els[0][0] == 'if': els = [('bin', '+', MI, els[0], ('lit', MI, 0))]
                return ('listlit', els)
            if c < 0.5: return ('cons', self.expr(MI, scope, d - 1), self.expr(LMI, scope, d - 1))
            if c < 0.65: return ('rev', self.expr(LMI, scope, d - 1))
            if c < 0.8:
                v = self.fresh('c')
                sc2 = dict(scope); sc2[v] = MI
                self.tags.add('collect')
                return ('compr', v, self.pure_small(MI, sc2, 2), self.expr(LMI, scope, d - 1))
            if c < 0.9: return ('restsafe', self.expr(LMI, scope, d - 1))
            return self.lit(LMI)
        raise KeyError(T)

    def small_arg(self, T, scope, d):
        """argument expressions kept small so that recursion depths and values stay bounded"""
        if T == MI and self.r.random() < 0.6:
            vs = [n for n, t in scope.items() if t == MI]
            base = ('var', self.r.choice(vs), MI) if vs and self.r.random() < 0.6 else ('lit', MI, self.r.randint(-3, 12))
            if self.r.random() < 0.4: return ('bin', 'rem', MI, base, ('lit', MI, self.r.choice([5, 7, 11])))
            return base if base[0] == 'lit' else ('bin', 'rem', MI, base, ('lit', MI, self.r.choice([6, 9, 13])))
        return self.expr(T, scope, min(d, 2))

    def pure_small(self, T, scope, d):
        return self.expr(T, scope, min(d, 2))

    # ---------------------------------------------------------------- statements inside pure function bodies
    def fbody(self, ret, scope, d, in_loop=False):
        r = self.r; out = []
        for _ in range(r.randint(0, 3)):
            c = r.random()
            if c < 0.35:
                T = r.choice([MI, MI, INT, BOOL] if 'bignum' in self.feat else [MI, MI, BOOL]); v = self.fresh('v')
                out.append(('decl', v, T, self.expr(T, scope, 2))); scope[v] = T
            elif c < 0.5 and 'earlyexit' in self.feat and not in_loop:
                self.tags.add('earlyexit'); out.append(('exit', self.expr(BOOL, scope, 2), self.expr(ret, scope, 2)))
            elif c < 0.75 and 'loops' in self.feat and d > 0:
                out.append(self.loop(scope, d - 1, ret, pure=True))
            elif c < 0.9:
                muts = [n for n, t in scope.items() if n.startswith('zqv')]
                if muts:
                    v = r.choice(muts); out.append(('set', v, self.expr(scope[v], scope, 2)))
            else:
                out.append(('ifs', self.expr(BOOL, scope, 2), [('ret', self.expr(ret, scope, 2))], []))
                self.tags.add('return')
        return out

    def loop(self, scope, d, ret=None, pure=False):
        """a terminating loop; in pure mode (function bodies) it only updates locals and may return"""
        r = self.r; self.tags.add('loop')
        kind = r.choice(['while', 'forr', 'forl'] + (['forg'] if self.gens else []))
        acc = [n for n, t in scope.items() if t == MI and n.startswith('zqv')]
        if not acc:
            return ('ifs', ('lit', BOOL, True), [], [])
        a = r.choice(acc)
        body = []
        sc = dict(scope)
        if kind == 'while':
            i = self.fresh('v'); n = r.randint(0, 9)
            pre = ('decl', i, MI, ('lit', MI, 0)); sc[i] = MI
            body.append(('set', i, ('bin', '+', MI, ('var', i, MI), ('lit', MI, 1))))
            ctl = i
        elif kind == 'forr':
            i = self.fresh('i'); sc[i] = MI; ctl = i
        elif kind == 'forl':
            i = self.fresh('x'); sc[i] = MI; ctl = i; self.tags.add('list')
        else:
            i = self.fresh('y'); sc[i] = MI; ctl = i; self.tags.add('generator')
        if r.random() < 0.4: body.append(('ifs', ('cmp', '=', ('bin', 'rem', MI, ('var', ctl, MI), ('lit', MI, r.choice([2, 3]))), ('lit', MI, 0), MI), [('iterate',)], [])); self.tags.add('iterate')
        if r.random() < 0.3: body.append(('ifs', ('cmp', '>', ('var', ctl, MI), ('lit', MI, r.randint(2, 8)), MI), [('break',)], [])); self.tags.add('break')
        upd = ('bin', r.choice(['+', '-', '+']), MI, ('var', a, MI), self.bounded(MI, sc))
        body.append(('set', a, upd))
        if pure and ret is not None and r.random() < 0.3:
            body.append(('ifs', ('cmp', '>', ('var', ctl, MI), ('lit', MI, r.randint(1, 6)), MI), [('ret', self.expr(ret, sc, 1))], [])); self.tags.add('return')
        if not pure and r.random() < 0.5: body.append(('out', MI, ('var', a, MI)))
        if not pure and d > 0 and r.random() < 0.25: body.append(self.loop(sc, d - 1))
        if kind == 'while': return ('block', [pre, ('while', ('cmp', '<', ('var', i, MI), ('lit', MI, n), MI), body)])
        if kind == 'forr': return ('forr', i, ('lit', MI, r.randint(-2, 3)), ('lit', MI, r.randint(0, 9)), body)
        if kind == 'forl': return ('forl', i, self.expr(LMI, scope, 2), body)
        g = r.choice(sorted(self.gens))
        return ('forg', i, g, ('lit', MI, r.randint(0, 9)), body)

    def bounded(self, T, scope):
        """a small-magnitude MI expression (keeps accumulators far from the 62-bit limit)"""
        vs = [n for n, t in scope.items() if t == MI]
        b = ('var', self.r.choice(vs), MI) if vs and self.r.random() < 0.7 else ('lit', MI, self.r.randint(-9, 9))
        return ('bin', 'rem', MI, b, ('lit', MI, self.r.choice([7, 10, 97, 1000])))

    # ---------------------------------------------------------------- top level
    def build(self):
        r = self.r
        # packs first, so expressions can use them
        if 'macros' in self.feat:
            m = 'ZQM%d' % r.randint(1, 9); self.macros[m] = ('bin', r.choice(['+', '*', '-']), MI, ('bin', '*', MI, ('var', 'x', MI), ('var', 'x', MI)), ('lit', MI, r.randint(-9, 9)))
            k = 'ZQK%d' % r.randint(1, 9); self.macros[k] = None; self.kval = r.randint(-100, 100)
        if 'domains' in self.feat:
            self.consts = {'ka': r.randint(-9, 9), 'kb': r.randint(-9, 9), 'mb': r.randint(2, 5), 'kg': r.randint(-5, 5)}
        if 'exceptions' in self.feat: self.tags.add('exception')
        nf = r.randint(1, 4) if 'funcs' in self.feat else 0
        for _ in range(nf): self.mkfunc()
        if 'closures' in self.feat:
            m = self.fresh('mk'); self.mk[m] = ('bin', r.choice(['+', '*', '-']), MI, ('var', 'x', MI), ('bin', 'rem', MI, ('var', 'k', MI), ('lit', MI, 17)))
        if 'generators' in self.feat:
            g = self.fresh('gen'); self.gens[g] = (r.choice([None, 2, 3]), ('bin', r.choice(['*', '+']), MI, ('var', 'i', MI), ('bin', 'rem', MI, ('var', 'i', MI), ('lit', MI, 5))))
        if 'overload' in self.feat:
            o = self.fresh('o'); self.over[o] = r.randint(-5, 5)
        if 'exceptions' in self.feat:
            t = self.fresh('thr'); self.thr[t] = (r.randint(0, 6), r.choice(['ZqE1', 'ZqE2']), r.randint(-3, 3))
        # main body
        scope = {}
        main = []
        for _ in range(r.randint(1, 3)):
            T = r.choice([MI, MI, INT, BOOL, STR, LMI]); v = self.fresh('v')
            if (T == INT and 'bignum' not in self.feat) or (T == STR and 'strings' not in self.feat) or (T == LMI and 'lists' not in self.feat): T = MI
            main.append(('decl', v, T, self.expr(T, scope, 2))); scope[v] = T; self.globals[v] = T
        if 'records' in self.feat:
            rn = self.fresh('r'); self.recs[rn] = 1; self.tags.add('record')
            main.append(('recdecl', rn, self.expr(MI, scope, 2), self.expr(INT, scope, 2))); scope[rn] = 'REC'
        if 'unions' in self.feat:
            un = self.fresh('u'); self.unis[un] = 1; self.tags.add('union')
            main.append(('unidecl', un, 'i', self.expr(MI, scope, 2)) if r.random() < 0.5 else ('unidecl', un, 't', self.expr(STR, scope, 1))); scope[un] = 'UNI'
        if 'counters' in self.feat:
            # opt-in: a curried counter whose innermost closure assigns a variable two environment levels up
            self.tags.add('counters')
            self.counter_fn = self.fresh('mkc')
            gname = self.fresh('g')
            main.append(('cdecl', gname, self.expr(MI, scope, 1)))
            self.csteps = []
            # the same scenario inside one function, where the closure values are known to the optimiser (inlined at -Q3,
            # the assignment then goes through an environment two levels up)
            self.crun = self.fresh('crun')
            for _ in range(r.randint(2, 3)):
                main.append(('crun', ('lit', MI, r.randint(0, 50)), ('lit', MI, r.randint(1, 9)), ('lit', MI, r.randint(10, 20))))
            for _ in range(r.randint(2, 3)):
                f = self.fresh('st'); main.append(('cstep', f, gname, ('lit', MI, r.randint(1, 12)))); self.csteps.append(f)
        if 'taggedunion' in self.feat:
            un = self.fresh('w'); self.unis[un] = 2; self.tags.add('union'); self.tags.add('taggedunion')
            main.append(('unidecl', un, self.utag(un, MI), self.expr(MI, scope, 2)) if r.random() < 0.6 else ('unidecl', un, 'nm', self.expr(STR, scope, 1))); scope[un] = 'UNI'
        nfix = len(main)
        for _ in range(self.size):
            main.append(self.mainstmt(scope, 2))
        if 'fluids' in self.feat:
            # opt-in: fluid (dynamically bound) variable rebound by a catching function and by a throwing callee below it
            self.tags.add('fluids')
            self.fluid = {'k0': r.randint(1, 9), 'k1': r.randint(100, 199), 'k2': r.randint(10, 49), 't': r.randint(0, 4)}
            for _ in range(r.randint(3, 5)):
                pos = r.randint(nfix, len(main))
                main.insert(pos, ('fcall', ('lit', MI, r.randint(0, 8))))
        if 'taggedunion' in self.feat:
            # observe the tagged union directly after its declaration and after a few assignments placed among the statements
            wn = [u for u, sh in self.unis.items() if sh == 2][0]
            main.insert(nfix, ('uobs', wn))
            for _ in range(r.randint(2, 4)):
                pos = r.randint(nfix + 1, len(main))
                T = r.choice([MI, MI, STR])
                main[pos:pos] = [('setu', wn, self.utag(wn, T), self.expr(T, scope, 2) if T == MI else self.expr(STR, scope, 1)), ('uobs', wn)]
        if 'exceptions' in self.feat and self.thr and r.random() < 0.25:
            t = r.choice(sorted(self.thr)); main.append(('out', MI, ('call', t, [('lit', MI, r.randint(0, 9))], MI)))   # may end by an uncaught exception
            main.append(('out', STR, ('lit', STR, 'after')))
        self.main = main
        return self

    def mkfunc(self):
        r = self.r
        name = self.fresh('f')
        ret = r.choice([MI, MI, INT, BOOL] if 'bignum' in self.feat else [MI, MI, BOOL])
        nparams = r.randint(1, 3)
        ptypes = [r.choice([MI, MI, INT, BOOL] if 'bignum' in self.feat else [MI, BOOL]) for _ in range(nparams)]
        recursive = 'recursion' in self.feat and r.random() < 0.5
        if recursive: ptypes[0] = MI; self.tags.add('recursion')
        params = [('zqp%d%s' % (i, name[2:]), t) for i, t in enumerate(ptypes)]
        scope = {n: t for n, t in params}
        body = []
        if recursive:
            # n <= 0 => base ; combine(n, f(n-1, ...))
            n0 = params[0][0]
            base = self.expr(ret, scope, 1)
            body.append(('exit', ('cmp', '<=', ('var', n0, MI), ('lit', MI, 0), MI), base))
            self.funcs[name] = (ptypes, ret)   # visible for the recursive call only
            rec = ('call', name, [('bin', '-', MI, ('var', n0, MI), ('lit', MI, r.choice([1, 1, 2])))] + [self.small_arg(t, scope, 1) for t in ptypes[1:]], ret)
            del self.funcs[name]
            if ret == MI: fin = ('bin', r.choice(['+', '-']), MI, rec, self.bounded(MI, scope))
            elif ret == INT: fin = ('bin', r.choice(['+', '*', '-']), INT, rec, ('conv', ('bin', '+', MI, self.bounded(MI, scope), ('lit', MI, 2))))
            else: fin = (r.choice(['and', 'or']), rec, self.expr(BOOL, scope, 1))
            body += self.fbody(ret, scope, 1)
            self.top.append(('func', name, params, ret, body, fin, True))
        else:
            body += self.fbody(ret, scope, 2)
            fin = self.expr(ret, scope, 3)
            self.top.append(('func', name, params, ret, body, fin, False))
        self.funcs[name] = (ptypes, ret)

    def nested(self, scope):
        """scope for statements nested in if/loop/try: union variables are not visible there (avoid list: the unchanged
        tree rejects or mis-compiles some programs that test and assign a union inside nested conditionals)"""
        return {n: t for n, t in scope.items() if t != 'UNI'}

    def mainstmt(self, scope, d):
        r = self.r
        if getattr(self, 'csteps', None) and d >= 2 and r.random() < 0.3:       # only at the top level of the main part
            return ('ccall', r.choice(self.csteps))
        c = r.random()
        if c < 0.40:
            T = r.choice([MI, MI, INT, BOOL, STR, LMI])
            if (T == INT and 'bignum' not in self.feat) or (T == STR and 'strings' not in self.feat) or (T == LMI and 'lists' not in self.feat): T = MI
            return ('out', T, self.expr(T, scope, 3))
        if c < 0.52:
            vs = [n for n, t in scope.items() if t in (MI, INT, BOOL, STR, LMI)]
            if vs:
                v = r.choice(vs); return ('set', v, self.expr(scope[v], scope, 3))
        if c < 0.62 and d > 0:
            sc = self.nested(scope)
            return ('ifs', self.expr(BOOL, sc, 2), [self.mainstmt(dict(sc), d - 1) for _ in range(r.randint(1, 2))], [self.mainstmt(dict(sc), d - 1) for _ in range(r.randint(0, 2))])
        if c < 0.74 and 'loops' in self.feat and d > 0:
            accs = [n for n, t in scope.items() if t == MI and n.startswith('zqv')]
            if accs: return self.loop(self.nested(scope), d - 1)
        if c < 0.80 and self.recs:
            rn = r.choice(sorted(self.recs))
            if rn in scope: return ('setfld', rn, r.choice(['p', 'q']), None) if False else (('setfld', rn, 'p', self.expr(MI, scope, 2)) if r.random() < 0.5 else ('setfld', rn, 'q', self.expr(INT, scope, 2)))
        if c < 0.85 and self.unis:
            un = r.choice(sorted(self.unis))
            if un in scope: return ('setu', un, self.utag(un, MI), self.expr(MI, scope, 2)) if r.random() < 0.5 else ('setu', un, self.utag(un, STR), self.expr(STR, scope, 1))
        if c < 0.95 and 'exceptions' in self.feat and d > 0:
            self.tags.add('try')
            scope = self.nested(scope)
            body = [self.mainstmt(dict(scope), 0) for _ in range(r.randint(0, 2))]
            k = r.random()
            if k < 0.4: body.append(('throw', r.choice(['ZqE1', 'ZqE2'])))
            elif k < 0.8 and self.thr:
                t = r.choice(sorted(self.thr)); body.append(('out', MI, ('call', t, [('lit', MI, r.randint(0, 9))], MI)))
            body += [self.mainstmt(dict(scope), 0) for _ in range(r.randint(0, 1))]
            handler = [('out', STR, ('lit', STR, 'caught %d' % r.randint(0, 99)))] + [self.mainstmt(dict(scope), 0) for _ in range(r.randint(0, 1))]
            fin = [('out', STR, ('lit', STR, 'finally %d' % r.randint(0, 99)))] if r.random() < 0.6 else None
            if fin: self.tags.add('finally')
            return ('try', body, handler, fin)
        T = MI
        return ('out', T, self.expr(T, scope, 3))

# ============================================================================ renderer
def q(s):
    return '"' + s.replace('_', '__').replace('"', '_"') + '"'

class Render:
    """Braced rendering.  Types are pinned (E@T) only where the context does not already determine them: the unchanged
    tree mis-handles some pinned sub-expressions in nested conditional contexts (DESIGN 6a), and conditions of `if`
    statements are first stored in a Boolean variable for the same reason."""
    def __init__(self, g, drop_val=False, box_plus=False, extra_top=(), marker=None, cond_val=False): self.g = g; self.nb = 0; self.drop_val = drop_val; self.box_plus = box_plus; self.extra_top = list(extra_top); self.marker = marker; self.cond_val = cond_val

    def anchored(self, x):
        k = x[0]
        if k == 'raw': return True
        if k == 'lit': return x[1] in (BOOL, STR)
        if k in ('var', 'call', 'len', 'slen', 'recfld', 'ufld', 'dom', 'clos', 'ocall', 'conv', 'pow',
                 'cmp', 'and', 'or', 'not', 'empty', 'ucase', 'concat'): return True
        if k == 'mconst': return False
        if k == 'bin': return self.anchored(x[3]) or self.anchored(x[4])
        if k == 'neg': return self.anchored(x[2])
        if k == 'if': return self.anchored(x[3]) or self.anchored(x[4])
        if k == 'macro': return self.anchored(x[2])
        if k == 'cons': return self.anchored(x[1]) or self.anchored(x[2])
        if k in ('rev', 'restsafe'): return self.anchored(x[1])
        if k in ('listlit', 'compr'): return False
        raise KeyError(k)

    def typeof(self, x):
        k = x[0]
        if k in ('lit',): return x[1]
        if k == 'var': return x[2]
        if k in ('bin',): return x[2]
        if k in ('neg', 'if'): return x[1]
        if k in ('listlit', 'cons', 'rev', 'restsafe', 'compr'): return LMI
        if k in ('conv', 'pow'): return INT
        if k == 'call': return x[3]
        if k in ('concat',): return STR
        if k in ('ufld', 'recfld'): return x[3]
        if k in ('cmp', 'and', 'or', 'not', 'empty', 'ucase'): return BOOL
        return MI

    def pin(self, text, T):
        return '(%s@%s)' % (text, 'List(MI)' if T == LMI else TYNAME[T])

    def e(self, x, exp=True):
        """exp: the context already determines the type of x"""
        if not exp and not self.anchored(x):
            return self.pin(self.e(x, True), self.typeof(x))
        k = x[0]
        if k == 'raw': return x[1]
        if k == 'lit':
            T, v = x[1], x[2]
            if T == BOOL: return 'true' if v else 'false'
            if T == STR: return q(v)
            return str(v) if v >= 0 else '(-%d)' % -v
        if k == 'var': return x[1]
        if k == 'mconst': return x[1]
        if k == 'bin':
            a, b = x[3], x[4]
            if exp: return '(%s %s %s)' % (self.e(a, True), x[1], self.e(b, True))
            if self.anchored(a): return '(%s %s %s)' % (self.e(a, False), x[1], self.e(b, True))
            return '(%s %s %s)' % (self.e(a, True), x[1], self.e(b, False))
        if k == 'neg': return '(-%s)' % self.e(x[2], exp)
        if k == 'cmp':
            a, b = x[2], x[3]
            if self.anchored(a): return '(%s %s %s)' % (self.e(a, False), x[1], self.e(b, True))
            if self.anchored(b): return '(%s %s %s)' % (self.e(a, True), x[1], self.e(b, False))
            return '(%s %s %s)' % (self.e(a, False), x[1], self.e(b, True))
        if k in ('and', 'or'): return '(%s %s %s)' % (self.e(x[1], False), k, self.e(x[2], False))
        if k == 'not': return '(not %s)' % self.e(x[1], False)
        if k == 'call': return '%s(%s)' % (x[1], ', '.join(self.e(a, True) for a in x[2]))
        if k == 'if':
            c = self.e(x[2], False)
            if exp: return '(if %s then %s else %s)' % (c, self.e(x[3], True), self.e(x[4], True))
            if self.anchored(x[3]): return '(if %s then %s else %s)' % (c, self.e(x[3], False), self.e(x[4], True))
            return '(if %s then %s else %s)' % (c, self.e(x[3], True), self.e(x[4], False))
        if k == 'len': return '(#%s)' % self.e(x[1], False)
        if k == 'slen': return '(#%s)' % self.e(x[1], False)
        if k == 'conv': return '(%s::INT)' % self.e(x[1], False)
        if k == 'pow': return '(%s ^ (%d@MI))' % (self.e(x[1], False), x[2])
        if k == 'concat': return '(%s + %s)' % (self.e(x[1], False), self.e(x[2], False))
        if k == 'listlit': return '[%s]' % ', '.join(self.e(a, True) for a in x[1]) if x[1] else 'empty'
        if k == 'cons':
            if exp: return 'cons(%s, %s)' % (self.e(x[1], True), self.e(x[2], True))
            if self.anchored(x[2]): return 'cons(%s, %s)' % (self.e(x[1], True), self.e(x[2], False))
            return 'cons(%s, %s)' % (self.e(x[1], False), self.e(x[2], True))
        if k == 'rev': return 'reverse(%s)' % self.e(x[1], exp)
        if k == 'restsafe': return 'zqrest(%s)' % self.e(x[1], True)
        if k == 'empty': return 'empty?(%s)' % self.e(x[1], False)
        if k == 'compr': return '[%s for %s in %s]' % (self.e(x[2], True), x[1], self.e(x[3], False))
        if k == 'macro': return '%s(%s)' % (x[1], self.e(x[2], exp))
        if k == 'dom':
            kind, a = x[1], self.e(x[2], True)
            return {'twiceA': 'twice(mkA(%s))', 'twiceB': 'twice(mkB(%s))', 'valA': 'val(mkA(%s))', 'valB': 'val(mkB(%s))',
                    'getA': 'get(box(mkA(%s)))', 'getB': 'get(box(mkB(%s)))'}[kind] % a
        if k == 'clos':
            if x[4]: return 'zqap(%s(%s), %s)' % (x[1], self.e(x[2], True), self.e(x[3], True))
            return '(%s(%s))(%s)' % (x[1], self.e(x[2], True), self.e(x[3], True))
        if k == 'ocall': return '%s(%s)' % (x[1], self.e(x[3], False))
        if k == 'recfld': return '(%s.%s)' % (x[1], x[2])
        if k == 'ucase': return '(%s case %s)' % (x[1], x[2])
        if k == 'ufld': return '(%s.%s)' % (x[1], x[2])
        raise KeyError(k)

    def s(self, st, ind, ret=None):
        p = '\t' * ind; k = st[0]
        if k == 'rawstmt': return p + st[1]
        if k == 'decl': return '%s%s: %s := %s;' % (p, st[1], TYNAME[st[2]], self.e(st[3], True))
        if k == 'set': return '%s%s := %s;' % (p, st[1], self.e(st[2], True))
        if k == 'out': return '%s%s(%s);' % (p, PRINTER[st[1]], self.e(st[2], True))
        if k == 'ifs':
            self.nb += 1; bv = 'zqb%d' % self.nb
            tail = ('\n' + '\t' * (ind + 1) + 'zqnop();') if (self.marker and ind == 0) else ''     # session steps are typed as values: give both branches the value ()
            a = '%s%s: Boolean := %s;\n%sif %s then {\n%s%s\n%s}' % (p, bv, self.e(st[1], False), p, bv, self.ss(st[2], ind + 1, ret), tail, p)
            if st[3] or tail: a += ' else {\n%s%s\n%s}' % (self.ss(st[3], ind + 1, ret), tail, p)
            return a + ';'
        if k == 'block': return '\n'.join(self.s(x, ind, ret) for x in st[1])
        if k == 'while': return '%swhile %s repeat {\n%s\n%s};' % (p, self.e(st[1], False), self.ss(st[2], ind + 1, ret), p)
        if k == 'forr': return '%sfor %s: MI in %s..%s repeat {\n%s\n%s};' % (p, st[1], self.e(st[2], True), self.e(st[3], True), self.ss(st[4], ind + 1, ret), p)
        if k == 'forl': return '%sfor %s in %s repeat {\n%s\n%s};' % (p, st[1], self.e(st[2], False), self.ss(st[3], ind + 1, ret), p)
        if k == 'forg': return '%sfor %s in %s(%s) repeat {\n%s\n%s};' % (p, st[1], st[2], self.e(st[3], True), self.ss(st[4], ind + 1, ret), p)
        if k == 'break': return p + 'break;'
        if k == 'iterate': return p + 'iterate;'
        if k == 'ret': return '%sreturn %s;' % (p, self.e(st[1], True))
        if k == 'exit': return '%s%s => %s;' % (p, self.e(st[1], False), self.e(st[2], True))
        if k == 'throw': return '%sthrow %s;' % (p, st[1])
        if k == 'try':
            a = '%stry {\n%s\n%s} catch E in {\n%s\tE has ZqExc => {\n%s\n%s\t};\n%s\tnever\n%s}' % (p, self.ss(st[1], ind + 1), p, p, self.ss(st[2], ind + 2), p, p, p)
            if st[3]: a += ' finally {\n%s\n%s}' % (self.ss(st[3], ind + 1), p)
            return a + ';'
        if k == 'fcall': return '%spM(zqfcatch(%s)); pM(zqfshow());' % (p, self.e(st[1], True))
        if k == 'uobs':
            w = st[1]
            return ('%spB((%s case lo)); pB((%s case hi)); pB((%s case nm));\n' % (p, w, w, w) +
                    '%spM((if (%s case hi) then (%s.hi) else 0)); pM((if (%s case lo) then (%s.lo) else 0)); pS((if (%s case nm) then (%s.nm) else ""));' % (p, w, w, w, w, w, w))
        if k == 'crun': return '%spM(%s(%s, %s, %s));' % (p, self.g.crun, self.e(st[1], True), self.e(st[2], True), self.e(st[3], True))
        if k == 'cdecl': return '%s%s: MI -> (() -> MI) := %s(%s);' % (p, st[1], self.g.counter_fn, self.e(st[2], True))
        if k == 'cstep': return '%s%s: () -> MI := %s(%s);' % (p, st[1], st[2], self.e(st[3], True))
        if k == 'ccall': return '%spM(%s());' % (p, st[1])
        if k == 'recdecl': return '%s%s: Record(p: MI, q: INT) := [%s, %s];' % (p, st[1], self.e(st[2], True), self.e(st[3], True))
        if k == 'unidecl':
            if st[2] in ('lo', 'hi', 'nm'): return '%s%s: Union(lo: MI, hi: MI, nm: String) := [%s == %s];' % (p, st[1], st[2], self.e(st[3], True))
            return '%s%s: Union(i: MI, t: String) := [%s];' % (p, st[1], self.e(st[3], False))
        if k == 'setfld': return '%s%s.%s := %s;' % (p, st[1], st[2], self.e(st[3], True))
        if k == 'setu':
            if st[2] in ('lo', 'hi', 'nm'): return '%s%s := [%s == %s];' % (p, st[1], st[2], self.e(st[3], True))
            return '%s%s := [%s];' % (p, st[1], self.e(st[3], False))
        raise KeyError(k)

    def ss(self, sts, ind, ret=None):
        if not sts: return '\t' * ind + 'zqnop();'
        return '\n'.join(self.s(x, ind, ret) for x in sts)

    def lit(self, v): return self.e(('lit', MI, v), True)

    def text(self):
        g = self.g; o = [HEADER if not self.marker else HEADER.replace('stdout << x', 'stdout << "%s" << x' % self.marker)]
        o.append('zqrest(l: List MI): List MI == if empty? l then l else rest l;')
        o.append('zqap(f: MI -> MI, x: MI): MI == f f x;')
        o.append('zqnop(): () == {};')
        for m, body in sorted(g.macros.items()):
            if body is None: o.append('%s ==> %s;' % (m, self.lit(g.kval)))
            else: o.append('macro %s(x) == %s;' % (m, self.emacro(body)))
        if g.consts:
            c = g.consts
            o.append('define ZqCat: Category == with { val: % -> MI; twice: % -> MI; default twice(x: %): MI == 2 * val x };')
            o.append('ZqDomA: ZqCat with { mkA: MI -> % } == add { Rep == MI; import from Rep; mkA(n: MI): % == per n; ' + ('' if self.drop_val else ('if MI has FloatType then { val(x: %): MI == rep x + ' + self.lit(c['ka']) + ' }') if self.cond_val else 'val(x: %): MI == rep x + ' + self.lit(c['ka'])) + ' }')
            o.append('ZqDomB: ZqCat with { mkB: MI -> % } == add { Rep == MI; import from Rep; mkB(n: MI): % == per n; val(x: %): MI == rep x + ' + self.lit(c['kb']) + '; twice(x: %): MI == ' + self.lit(c['mb']) + ' * rep x }')
            o.append('ZqBox(T: ZqCat): with { box: T -> %; get: % -> MI } == add { Rep == T; import from Rep; box(t: T): % == per t; get(b: %): MI == ' + ('(rep b + 1)' if self.box_plus else 'twice(rep b)') + ' + ' + self.lit(c['kg']) + ' }')
            o.append('import from ZqDomA, ZqDomB, ZqBox ZqDomA, ZqBox ZqDomB;')
        if 'exceptions' in g.feat or 'fluids' in g.feat:
            o.append('define ZqExc: Category == with;\nZqE1: ZqExc == add;\nZqE2: ZqExc == add;')
        for it in g.top:
            _, name, params, ret, body, fin, rec = it
            o.append('%s(%s): %s == {\n%s\n\t%s\n}' % (name, ', '.join('%s: %s' % (n, TYNAME[t]) for n, t in params), TYNAME[ret],
                                                        '\n'.join(self.s(x, 1, ret) for x in body), self.e(fin, True)))
        for m, body in sorted(g.mk.items()):
            o.append('%s(k: MI): MI -> MI == (x: MI): MI +-> %s;' % (m, self.e(body, True)))
        for gn, (modk, body) in sorted(g.gens.items()):
            cond = 'if (i rem %d) = 0 then ' % modk if modk else ''
            o.append('%s(n: MI): Generator MI == generate { for i: MI in 1..n repeat { %syield %s } };' % (gn, cond, self.e(body, True)))
        for on, k in sorted(g.over.items()):
            o.append('%s(x: MI): MI == x + %s;\n%s(s: String): MI == (#s) * 2;' % (on, self.lit(k), on))
        for tn, (lim, exc, add) in sorted(g.thr.items()):
            o.append('%s(n: MI): MI == { if n > %s then throw %s; n + %s }' % (tn, self.lit(lim), exc, self.lit(add)))
        if getattr(g, 'fluid', None):
            f = g.fluid
            o.append('fluid zqfl: MI := %d;' % f['k0'])
            o.append('zqfshow(): MI == { fluid zqfl: MI; zqfl }')
            o.append('zqfthrow(n: MI): MI == { fluid zqfl := %d + n; pM(zqfshow()); if n > %d then throw ZqE1; n + zqfshow() }' % (f['k1'], f['t']))
            o.append('zqfmid(k: MI): MI == 1 + zqfthrow k;')
            o.append('zqfcatch(k: MI): MI == {\n\tfluid zqfl := %d + k;\n\tr: MI := 0;\n\ttry {\n\t\tr := zqfmid k;\n\t} catch E in {\n\t\tE has ZqExc => { r := -1 };\n\t\tnever\n\t};\n\tr + zqfshow()\n}' % f['k2'])
        if getattr(g, 'counter_fn', None):
            o.append('%s(start: MI): MI -> (() -> MI) == {\n\tn := start;\n\t(k: MI): (() -> MI) +-> {\n\t\tkk := k;\n\t\t(): MI +-> { free n; n := n + kk; n }\n\t}\n}' % g.counter_fn)
        if getattr(g, 'crun', None):
            o.append('%s(a: MI, k1: MI, k2: MI): MI == {\n\tg := %s(a);\n\tf := g(k1);\n\tf();\n\th := g(k2);\n\th();\n\tr1: MI := f();\n\tr2: MI := h();\n\tr1 + 1000 * r2\n}' % (g.crun, g.counter_fn))
        for t in self.extra_top: o.append(t)
        o.append('-- main')
        o.append('\n'.join(self.s(x, 0) for x in g.main))
        return '\n'.join(o) + '\n'

    def emacro(self, body):
        """macro bodies parenthesise their parameter: call-by-name on a pure argument equals call-by-value"""
        def rec(x):
            if x[0] == 'var' and x[1] == 'x': return '(x)'
            if x[0] == 'bin': return '(%s %s %s)' % (rec(x[3]), x[1], rec(x[4]))
            return Render.e(self, x, True)
        return rec(body)

# ============================================================================ reference evaluator
class Eval:
    def __init__(self, g, mi_bits=62, fuel=200000):
        self.g = g; self.out = []; self.fuel = fuel; self.lim = 1 << mi_bits
        self.funcs = {it[1]: it for it in g.top}
        self.depth = 0

    def tick(self):
        self.fuel -= 1
        if self.fuel < 0: raise Discard('step budget')

    def mi(self, v):
        if not (-self.lim < v < self.lim): raise Discard('MachineInteger range')
        return v

    def e(self, x, env):
        self.tick(); k = x[0]
        if k == 'lit': return x[2] if x[1] != LMI else list(x[2])
        if k == 'var':
            if x[1] not in env: raise Discard('unbound ' + x[1])
            return env[x[1]]
        if k == 'bin':
            op, T = x[1], x[2]; a = self.e(x[3], env); b = self.e(x[4], env)
            if op == '+': v = a + b
            elif op == '-': v = a - b
            elif op == '*': v = a * b
            else:
                if b == 0: raise Discard('division by zero')
                qq, rr = tdiv(a, b); v = qq if op == 'quo' else rr
            if T == MI: return self.mi(v)
            if abs(v).bit_length() > 3000: raise Discard('bignum too large')
            return v
        if k == 'neg': return self.mi(-self.e(x[2], env)) if x[1] == MI else -self.e(x[2], env)
        if k == 'cmp':
            a = self.e(x[2], env); b = self.e(x[3], env); op = x[1]
            return {'=': a == b, '~=': a != b, '<': a < b, '<=': a <= b, '>': a > b, '>=': a >= b}[op]
        if k == 'and':
            a = self.e(x[1], env); b = self.e(x[2], env); return a and b       # both operands are pure: evaluation of b is unobservable
        if k == 'or':
            a = self.e(x[1], env); b = self.e(x[2], env); return a or b
        if k == 'not': return not self.e(x[1], env)
        if k == 'if':
            return self.e(x[3], env) if self.e(x[2], env) else self.e(x[4], env)
        if k == 'call': return self.call(x[1], [self.e(a, env) for a in x[2]])
        if k == 'len': return len(self.e(x[1], env))
        if k == 'slen': return len(self.e(x[1], env))
        if k == 'conv': return self.e(x[1], env)
        if k == 'pow':
            a = self.e(x[1], env)
            if abs(a).bit_length() * max(1, x[2]) > 3000: raise Discard('bignum too large')
            if a == 0 and x[2] == 0: return 0          # libaldor's Integer defines 0^0 = 0 (observed on every route)
            return a ** x[2]
        if k == 'concat':
            v = self.e(x[1], env) + self.e(x[2], env)
            if len(v) > 400: raise Discard('string too long')
            return v
        if k == 'listlit': return [self.e(a, env) for a in x[1]]
        if k == 'cons':
            v = [self.e(x[1], env)] + self.e(x[2], env)
            if len(v) > 60: raise Discard('list too long')
            return v
        if k == 'rev': return list(reversed(self.e(x[1], env)))
        if k == 'restsafe':
            l = self.e(x[1], env); return l[1:] if l else l
        if k == 'empty': return len(self.e(x[1], env)) == 0
        if k == 'compr':
            l = self.e(x[3], env); res = []
            for v in l:
                e2 = dict(env); e2[x[1]] = v; res.append(self.e(x[2], e2))
            return res
        if k == 'macro':
            a = self.e(x[2], env); return self.e(self.g.macros[x[1]], {'x': a})
        if k == 'mconst': return self.g.kval
        if k == 'dom':
            c = self.g.consts; n = self.e(x[2], env); kind = x[1]
            valA = self.mi(n + c['ka']); valB = self.mi(n + c['kb'])
            twA = self.mi(2 * valA); twB = self.mi(c['mb'] * n)
            if kind == 'valA': return valA
            if kind == 'valB': return valB
            if kind == 'twiceA': return twA
            if kind == 'twiceB': return twB
            if kind == 'getA': return self.mi(twA + c['kg'])
            return self.mi(twB + c['kg'])
        if k == 'clos':
            kk = self.e(x[2], env); xv = self.e(x[3], env); body = self.g.mk[x[1]]
            f = lambda v: self.e(body, {'x': v, 'k': kk})
            return f(f(xv)) if x[4] else f(xv)
        if k == 'ocall':
            v = self.e(x[3], env)
            return self.mi(v + self.g.over[x[1]]) if x[2] == MI else self.mi(len(v) * 2)
        if k == 'recfld': return env[x[1]][x[2]]
        if k == 'ucase': return env[x[1]][0] == x[2]
        if k == 'ufld':
            if env[x[1]][0] != x[2]: raise Discard('union field of the wrong branch')
            return env[x[1]][1]
        raise KeyError(k)

    def call(self, name, args):
        self.depth += 1
        if self.depth > 60: raise Discard('recursion depth')
        try:
            if name in self.g.thr:
                lim, exc, add = self.g.thr[name]
                if args[0] > lim: raise _Throw(exc)
                return self.mi(args[0] + add)
            _, nm, params, ret, body, fin, rec = self.funcs[name]
            env = {p[0]: a for p, a in zip(params, args)}
            try:
                self.block(body, env, pure=True)
                return self.e(fin, env)
            except _Return as r:
                return r.v
        finally:
            self.depth -= 1

    class _Exit(Exception):
        def __init__(self, v): self.v = v

    def block(self, sts, env, pure=False):
        for st in sts:
            self.stmt(st, env, pure)

    def stmt(self, st, env, pure=False):
        self.tick(); k = st[0]
        if k == 'decl' or k == 'set': env[st[1]] = self.e(st[3] if k == 'decl' else st[2], env)
        elif k == 'out': self.emit(st[1], self.e(st[2], env))
        elif k == 'ifs':
            self.block(st[2] if self.e(st[1], env) else st[3], env, pure)
        elif k == 'block': self.block(st[1], env, pure)
        elif k == 'while':
            while self.e(st[1], env):
                try: self.block(st[2], env, pure)
                except _Break: break
                except _Iterate: continue
        elif k in ('forr', 'forl', 'forg'):
            if k == 'forr': seq = range(self.e(st[2], env), self.e(st[3], env) + 1); body = st[4]
            elif k == 'forl': seq = list(self.e(st[2], env)); body = st[3]
            else:
                modk, gb = self.g.gens[st[2]]; n = self.e(st[3], env); body = st[4]
                seq = [self.e(gb, {'i': i}) for i in range(1, n + 1) if not modk or tdiv(i, modk)[1] == 0]
            for v in seq:
                env[st[1]] = v
                try: self.block(body, env, pure)
                except _Break: break
                except _Iterate: continue
        elif k == 'break': raise _Break()
        elif k == 'iterate': raise _Iterate()
        elif k == 'ret': raise _Return(self.e(st[1], env))
        elif k == 'exit':
            if self.e(st[1], env): raise _Return(self.e(st[2], env))
        elif k == 'throw': raise _Throw(st[1])
        elif k == 'try':
            try:
                try: self.block(st[1], env)
                except _Throw: self.block(st[2], env)
            finally:
                if st[3]: self.block(st[3], env)
        elif k == 'fcall':
            f = self.g.fluid; kk = self.e(st[1], env)
            outer = self.mi(f['k2'] + kk); inner = self.mi(f['k1'] + kk)
            self.emit(MI, inner)
            rr = -1 if kk > f['t'] else self.mi(1 + self.mi(kk + inner))
            self.emit(MI, self.mi(rr + outer)); self.emit(MI, f['k0'])
        elif k == 'uobs':
            tg, v = env[st[1]]
            for t in ('lo', 'hi', 'nm'): self.emit(BOOL, tg == t)
            self.emit(MI, v if tg == 'hi' else 0); self.emit(MI, v if tg == 'lo' else 0); self.emit(STR, v if tg == 'nm' else '')
        elif k == 'crun':
            a, k1, k2 = self.e(st[1], env), self.e(st[2], env), self.e(st[3], env)
            n = self.mi(a + k1); n = self.mi(n + k2); n = self.mi(n + k1); r1 = n; n = self.mi(n + k2); r2 = n
            self.emit(MI, self.mi(r1 + self.mi(1000 * r2)))
        elif k == 'cdecl': env[st[1]] = {'n': self.e(st[2], env)}
        elif k == 'cstep': env[st[1]] = (env[st[2]], self.e(st[3], env))
        elif k == 'ccall':
            box, kk = env[st[1]]
            box['n'] = self.mi(box['n'] + kk)
            self.emit(MI, box['n'])
        elif k == 'recdecl': env[st[1]] = {'p': self.e(st[2], env), 'q': self.e(st[3], env)}
        elif k == 'unidecl' or k == 'setu': env[st[1]] = (st[2], self.e(st[3], env))
        elif k == 'setfld': env[st[1]][st[2]] = self.e(st[3], env)
        else: raise KeyError(k)

    def emit(self, T, v):
        if T == BOOL: s = 'T' if v else 'F'
        elif T == LMI: s = '[' + ','.join(str(a) for a in v) + ']'
        else: s = str(v)
        self.out.append(s)
        if len(self.out) > 400: raise Discard('too much output')

    def run(self):
        """(stdout text, exit class 'ok' | 'fail')"""
        env = {}
        try:
            self.block(self.g.main, env)
            return '\n'.join(self.out) + ('\n' if self.out else ''), 'ok'
        except _Throw as t:
            return '\n'.join(self.out) + ('\n' if self.out else ''), 'fail'
        except (_Break, _Iterate, _Return):
            raise Discard('control escaped')

ALLF = ['funcs', 'recursion', 'closures', 'generators', 'overload', 'macros', 'domains', 'exceptions', 'records', 'unions', 'lists', 'bignum', 'strings', 'earlyexit', 'loops']
def features_with(seed, extra):
    """a seed-determined subset of the default features plus the opt-in ones in `extra`"""
    r = random.Random('feat/' + seed)
    return set(r.sample(ALLF, r.randint(4, len(ALLF)))) | set(extra)

def make(seed, mi_bits=62, features=None, size=None, extra=None):
    """returns (Gen, source text, expected stdout, expected exit class) or raises Discard"""
    if extra and features is None: features = features_with(seed, extra)
    g = Gen(seed, size=size, features=features).build()
    ev = Eval(g, mi_bits=mi_bits)
    out, cls = ev.run()
    return g, Render(g).text(), out, cls

def programs(seed0, count, mi_bits=62, max_tries=None, extra=None):
    """yield up to `count` programs that pass the discipline; also counts discards"""
    n = 0; tried = 0; disc = 0
    while n < count and tried < (max_tries or count * 20):
        sd = '%s/%d' % (seed0, tried); tried += 1
        try:
            g, text, out, cls = make(sd, mi_bits, extra=extra)
        except Discard:
            disc += 1; continue
        except RecursionError:
            disc += 1; continue
        n += 1
        yield sd, g, text, out, cls, disc
