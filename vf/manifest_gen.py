#!/usr/bin/env python3
"""Regenerates MANIFEST.json from the table below (kept in one place so it stays valid)."""
import json, os, subprocess
V = os.path.dirname(os.path.dirname(os.path.abspath(__file__)))
CHECKS = {
 'C10': ('exploration', 'shadow-heap monitor + allocator self-audit over exhaustive short and random long histories',
         'Histories of allocate/free/resize/recode/root/link/collect are replayed on the real B-tree allocator and collector by harness/store_h.c; after every step a shadow heap checks alignment, size, disjointness, contents (keyed patterns), resize prefix, survival of blocks reachable from roots (incl. interior pointers), byte conservation, and stoAudit() runs with washing on. All histories of length 3 (quick: plus a slice of length 4; thorough: all of length 5) over a 6-size alphabet, plus random phased histories over every size 1..1100 and page multiples.',
         'Trusts the harness shadow model and the conservative treatment of unreachable blocks (nothing asserted). ASan cannot observe this allocator.', '5 C10'),
 'C11': ('exploration', 'differential monitor against Python integers, plain and ASan builds',
         'harness/bigint_h.c drives bigint.c and the fiBInt* wrappers of foam_i.c on boundary products and random operands up to 4000 bits; every result is compared with Python integers (exact; truncating division; sign conventions), on the real-allocator build and on a malloc-store ASan+bounds build.',
         'Operands enter via bintFrPlacevS and leave via bintToPlacevS (cross-checked by identity/string cases). ShiftRem is checked only on the domain its single caller uses.', '5 C11'),
 'C19': ('exploration', 'bit-pattern sweep monitor + end-to-end literal differential against Python',
         'harness/xfloat_h.c sweeps single (quick: stride 251; thorough: all 2^32) and double patterns through the portable encoding, native/portable dissemble-assemble and runtime boxing, with an independent frexp model of the portable bytes; decimal literals are compiled folded and unfolded, run interpreted, via .ao and via C, and compared with Python float().',
         'Python float() as correctly rounded reference; subnormal portable bytes checked by round trip only.', '5 C19'),
 'C20': ('exploration', 'history replay against Python reference models; truth-table oracle for DNF',
         'harness/cont_h.c replays generated histories on table, btree, priq, bitv, intset, list, buffer; every result is compared with a Python model (dict, sorted multiset, heap, int masks, lists, bytes). harness/dnf_h.c builds normal forms from formulas (exhaustive over 2 atoms depth 2 and 3 atoms depth 1, random up to 10 atoms) and the truth table of each normal form, implies and equal answers are checked. Both on plain and ASan builds.',
         'Operations outside the modules\' contracts (delete of an absent B-tree key, extract from an empty queue) are not issued; dnfImplies completeness beyond the term-wise test is a recorded finding.', '5 C20'),
}
TV = 'translation_validation'; EX = 'exploration'; FE = 'fault_enumeration'
def add(i, lvl, tech, text, note): CHECKS[i] = (lvl, tech, text, note, '5 ' + i)
add('C01', TV, 'reference-evaluator oracle over generated programs on interpreter and C routes',
    'Programs are drawn from a typed abstract grammar (vf/gen.py: both integer widths, booleans, strings, lists, records, unions, closures, generators, loops with break/iterate, early exit, exceptions with finally, overloading, macros, a category with a default, two domains, a parametrised domain); the expected text and exit class come from an independent reference evaluator; every program runs interpreted and as a C executable at -Q1 and -Q0 (thorough: -Q3 too). A fixed pool plus a VERIF_SEED slice.',
    'The reference evaluator is the trusted model (Aldor User Guide semantics for the subset; libaldor conventions such as 0^0=0 observed once). Programs outside its discipline (62-bit overflow, zero divisors, empty first/rest) are discarded before compilation; shapes the pinned tree mis-handles are on a documented avoid list with committed witnesses.')
add('C02', TV, 'differential monitor across optimisation configurations with a pass-fired observer',
    'Each generated and corpus program is built under -Q1..-Q9, -O, every pass alone on top of -Q0, every pass removed from -Q9, random subsets and inline-limit extremes; stdout and exit class on the interp-ao route (C route for a third) must equal -Q0. The -Ffm text per configuration is compared with the -Q0 text to tally which switches rewrote the program (inconclusive if most never fire).',
    '-Q0 on the same route is the reference. -Q9 non-termination / crashes and the experimental -Qkillp are recorded findings.')
add('C03', TV, 'three-route differential monitor (interp from source, interp from .ao, C executable)',
    'Generated programs (including ones ending by an uncaught exception) and the deterministic runnable corpus run on three routes at -Q0/-Q1/-Q3 (thorough: six levels); stdout and exit class must agree pairwise; a fault on all routes counts as agreement, a hang or a route that cannot be built while another runs does not.',
    'Agreement is not correctness (C01 covers that for the generated family). Interpreter call-trace lines with raw addresses are removed.')
add('C04', EX, 'three-way differential monitor (interpreter / C runtime / constant folder) plus Python definitions',
    'Every builtin that the Machine domain imports and whose operands are scalars (182 on the pinned tree, parsed from foamBValInfoTable) is applied to boundary tuples in generated sources; each source runs -Q0 interpreted, -Q0 through C and -Q2 -Qinline-all interpreted; results must agree and, for Bool/Char/SInt/HInt/Byte/BInt ops on their domain, equal the Python definition. The -Q2 .fm is inspected to count how many calls the folder really evaluated.',
    'Operand constants are themselves built through literal conversion builtins; outside an op\'s mathematical domain only agreement is demanded.')
add('C05', TV, 'round-trip differential monitor over saved forms, split compilation and archives',
    'C/FOAM/Lisp generated from source, from the .ao and from the .fm are compared structurally (recorded file name masked, wide machine integers folded back by value, white space ignored); a re-saved .fm must be byte-identical; interpreting .ao and .fm must behave like the source; a client importing a unit from .ao or from an archive member, and a program split into library unit + client (interpreted and through C), must behave like the one-unit program per the reference evaluator. Includes an extreme-constant pack.',
    'C generated from FOAM text lacks pointer casts (recorded finding recognised by predicate); -Q9 failures fall back to -Q3 (C02 finding).')
add('C06', EX, 'acceptance oracle for generated valid programs, rejection oracle for single-fault AST mutants',
    'Valid generated programs must compile (-Fao -Fc -Ffm) with exit 0, no error line and all outputs. Fourteen kinds of type/scope fault (undefined identifier/operation, wrong argument type/count, assignment to a constant, wrong return type, duplicate definition, missing category export, operation not in the parameter category, wrong record field, case on a non-union, ...) are planted one at a time at statement positions of the abstract program; each mutant must be rejected with exit != 0, an (Error) line positioned inside the file and no .ao/.c/.fm left.',
    'Mutants are ill-typed by construction of the catalogue, each entry calibrated on the pinned tree.')
add('C07', EX, 'sanitizer monitor (ASan+bounds build, plus plain build with backtrace hook) over a fixed mutation sequence and a fresh clean-class slice',
    'Random bytes, token-level mutants of 300 corpus/template sources, and stress shapes are compiled one per process by the ASan build (every 4th also by the plain build with the real collector). Oracle: terminates, no signal/fault/bug/assert/sanitizer report, exit status non-zero iff an error line was printed, inputs unbalanced by construction get a diagnostic. The main sequence is a fixed function of a committed seed (quick is a prefix of thorough) so that the fault sites it reaches on the pinned tree are a finite recorded list.',
    'Known findings are keyed (build, report kind, innermost repository function), stack exhaustion by input. The ASan build uses the malloc store (no collector).')
add('C08', EX, 'byte-equality monitor over irrelevant dimensions with hook-forced collections in the compiler',
    'Each program is compiled to .ao .fm .c .lsp twice, differing in one dimension: repetition, ASLR off, -Wgc / -Wno-gc, scrambled environment, other cwd + absolute path, collections forced by the allocator hook at every k-th allocation in dense windows or sparse whole-run schedules with freed storage poisoned (the hook log proves the count), and three files in one invocation versus three invocations. All files and the diagnostics must be identical.',
    'Later files of a batch differ (recorded finding); the first file and behaviour are strict.')
add('C09', EX, 'schedule-forcing monitor (allocator hook) on compiled executables and the interpreter',
    'The same executable and the same interpreted .ao run with no forcing, with the demand collector made eager (GC_GEFN/GC_GGFN), and with collections forced at every k-th allocation, offset j (whole run for executables incl. k=1, windows for the interpreter), freed storage poisoned; output and exit class must equal the unforced run and no run may end in a storage fault.',
    'Conservative collection: only results are compared. One corpus program using the experimental packed representation is a recorded finding.')
add('C12', TV, 'differential monitor Java route versus reference evaluator',
    'Generated programs without try/catch and with 30-bit machine integers are translated with -Fjava -Jmain at -Q1/-Q3 (thorough: -Q9), compiled by javac against the shipped jars (40 classes per invocation) and run; stdout and exit class must equal the reference evaluator. "Java not implemented" marks an unsupported program, except for committed canaries that must stay supported.',
    'Java machine integers are 32-bit and Catch is unimplemented in the generator, hence the restricted family.')
add('C13', EX, 'session-versus-batch differential monitor with erroneous forms interleaved',
    'The top-level forms of generated programs are fed to aldor -Gloop; marker-prefixed lines must equal the batch interpretation and the reference evaluator. Erroneous forms (seven kinds) are inserted at statement boundaries, singly and in runs; the marker sequence must be that of the program without them and each must be reported.',
    'Only programs ending normally and without exception statements (recorded finding: try/catch steps are refused by the loop).')
add('C14', EX, 'metamorphic monitor: parse tree (-Fap) invariance under layout-only rewriting',
    'Every eligible corpus/template source (611) is rewritten by token-preserving layout edits: white-space runs, blank and comment lines, trailing comments, line splits/joins and escaped line breaks (braced), uniform re-indentation and tab expansion (piled); hand-paired braced/piled renderings of the same program are compared too. The .ap files must be byte-identical.',
    'The rewriter never inserts white space between adjacent tokens and leaves ++ documentation and # lines alone.')
add('C15', EX, 'metamorphic monitor on diagnostics (line shift, include, #line, column padding)',
    'Faulty programs (templates with planted faults, corpus sources yielding diagnostics) are transformed: k code-free lines (blank, comment, skipped #if block; k up to 70000) inserted before a random line, tail moved into an included file, #line N and #line N "file", faulty line padded; every diagnostic must move exactly as predicted with the same column, severity, text and count.',
    'Sources with conditional regions or local includes are excluded; #line numbers keep the numbering increasing. Column >= 16384 overflow is a recorded finding.')
add('C16', TV, 'gcc as oracle over C-generation options, plus name-map injectivity',
    'Programs (generated, corpus, an identifier pack with 60 long shared-prefix and operator-character names) are translated under {-Cold,-Cstandard} x smax {0,1,5,50} x {lines,no-lines}, compiled with gcc -std=gnu89/gnu99 -Werror=implicit-function-declaration, linked with the shipped runtime and run; behaviour must equal the default build. Identifier lengths {0,31,40,64} must compile; under every option set the number of distinct import/export names in the C equals the number of FOAM globals.',
    'Non-default identifier lengths are compiled but not linked against the shipped runtime (generated with the default length).')
add('C17', FE, 'enumerated file damage on plain and ASan builds',
    'Tiny units are compiled to .ao/.fm/.al by the snapshot compiler; every truncation length and substitutions at every offset (quick: a VERIF_SEED-chosen 1/24 of the enumeration; header bytes denser) are used in real compilations (C from saved form, client import + interpret, interpret saved program, archive member) on both builds. Allowed: same outputs with exit 0, or exit != 0 with a diagnostic. Header, section table and archive headers are strict; silent acceptance of any truncation is always a violation.',
    'The format has no checksum: payload substitutions that are accepted, fault or turn the program into a non-terminating one are recorded findings per (file kind, use).')
add('C18', FE, 'syscall fault injection (strace) with proof of firing, /dev/full, RLIMIT_FSIZE',
    'For every output kind (-Fai -Fap -Fasy -Fao -Ffm -Flsp -Fc -Fjava -Fmain) a fault-free traced run counts the writes and closes of the output; then every K-th write (ENOSPC) and K-th close (EIO) is failed in turn, the target is put on /dev/full, made a directory or placed in a missing directory, and RLIMIT_FSIZE sweeps the size. Exit 0 requires every requested output byte-equal to the reference; a fired failure requires exit != 0 and a diagnostic.',
    'A write/close injection counts only if strace logged (INJECTED) on a descriptor that was written to.')
NA = {}
NA = {}
def main():
    props = [json.loads(l) for l in open(os.path.join(V, 'properties.jsonl'))]
    checks = []
    for p in props:
        i = p['id']
        if i in CHECKS:
            lvl, tech, text, note, ref = CHECKS[i]
            checks.append({'property_id': i, 'quick_cmd': 'bin/check %s' % i, 'thorough_cmd': 'bin/check %s --tier thorough' % i,
                           'evidence_file': 'evidence/%s.json' % i, 'replay_cmd_template': 'bin/check %s --replay {path}' % i,
                           'engine': 'vf', 'level_claimed': {'category': lvl, 'text': text, 'design_ref': ref}, 'level_note': note, 'technique': tech})
    na = [{'property_id': p['id'], 'reason': NA.get(p['id'], 'runtime-monitoring check not built yet in this round (designed in DESIGN.md section 5); not claimed until it exists and is silent on the unchanged tree')}
          for p in props if p['id'] not in CHECKS]
    hooks = subprocess.run(['git', '-C', '/repo', 'log', '--format=%H %s'], stdout=subprocess.PIPE).stdout.decode().split('\n')
    hook_commits = [l.split(' ')[0] for l in hooks if 'verif hook' in l]
    m = {'version': 1,
         'setup_cmd': 'python3 vf/build.py plain asan',
         'hooks': {'guard': 'ALDOR_VERIF', 'enable': 'checks build a scratch copy of /repo\'s working tree with make CFLAGS="-O0 -g -DALDOR_VERIF" (vf/build.py); /repo itself is never built with the guard',
                   'baseline_off_cmd': 'bin/baseline-off', 'source_commits': hook_commits, 'add_only': True},
         'engines': [{'name': 'vf', 'path': 'vf/', 'serves_properties': sorted(CHECKS), 'kind_free_text': 'python drivers + C harnesses linked with the repository\'s own archives; monitors: reference models, differential oracles, sanitizer builds, fault injection'}],
         'checks': checks, 'not_applicable': na,
         'notes': 'exit 0 held / 1 violation / 2 inconclusive; known findings in known_findings.jsonl; build cache in $VF_WORK (default /var/tmp/vf-aldor)'}
    json.dump(m, open(os.path.join(V, 'MANIFEST.json'), 'w'), indent=1)
if __name__ == '__main__':
    main()
