#!/usr/bin/env python3
"""Regenerates MANIFEST.json from the table below (kept in one place so it stays valid)."""
import json, os, subprocess
V = os.path.dirname(os.path.dirname(os.path.abspath(__file__)))
CHECKS = {
 'C10': ('exploration', 'shadow-heap monitor + allocator self-audit over exhaustive short and random long histories',
         'Histories of allocate/free/resize/recode/root/link/collect are replayed on the real B-tree allocator and collector by harness/store_h.c; after every step a shadow heap checks alignment, size, disjointness, contents (keyed patterns), resize prefix, survival of blocks reachable from roots (incl. interior pointers), byte conservation, and stoAudit() runs with washing on. All histories of length 3 (quick: plus a slice of length 4; thorough: all of length 5) over a 6-size alphabet, plus random phased histories over every size 1..1100 and page multiples.',
         'Trusts the harness shadow model and the conservative treatment of unreachable blocks (nothing asserted). ASan cannot observe this allocator.', '5 C10'),
 'C11': ('exploration', 'differential monitor against Python integers, plain and ASan builds',
         'harness/bigint_h.c drives bigint.c and the fiBInt* wrappers of foam_i.c on boundary products and random operands up to 4000 bits; every result is compared with Python integers (exact; truncating division; sign conventions), on the real-allocator build and on a malloc-store ASan+bounds build.',
         'Operands enter via bintFrPlacevS and leave via bintToPlacevS (cross-checked by identity/string cases). ShiftRem is checked only on the domain its single caller uses.', '5 C11'),
 'C19': ('exploration', 'bit-pattern sweep monitor + end-to-end literal differential against Python',
         'harness/xfloat_h.c sweeps single (quick: stride 251; thorough: all 2^32) and double patterns through the portable encoding, native/portable dissemble-assemble and runtime boxing, with an independent frexp model of the portable bytes; decimal literals are compiled folded and unfolded, run interpreted, via .ao and via C, and compared with Python float().',
         'Python float() as correctly rounded reference; subnormal portable bytes checked by round trip only.', '5 C19'),
 'C20': ('exploration', 'history replay against Python reference models; truth-table oracle for DNF',
         'harness/cont_h.c replays generated histories on table, btree, priq, bitv, intset, list, buffer; every result is compared with a Python model (dict, sorted multiset, heap, int masks, lists, bytes). harness/dnf_h.c builds normal forms from formulas (exhaustive over 2 atoms depth 2 and 3 atoms depth 1, random up to 10 atoms) and the truth table of each normal form, implies and equal answers are checked. Both on plain and ASan builds.',
         'Operations outside the modules\' contracts (delete of an absent B-tree key, extract from an empty queue) are not issued; dnfImplies completeness beyond the term-wise test is a recorded finding.', '5 C20'),
}
CHECKS['C04'] = ('exploration', 'three-way differential monitor (interpreter / C runtime / constant folder) plus Python definitions',
         'Every builtin that the Machine domain imports and whose operands are scalars (182 on the pinned tree, parsed from foamBValInfoTable) is applied to boundary tuples in generated sources; each source runs -Q0 interpreted, -Q0 through C and -Q2 -Qinline-all interpreted; results must agree and, for Bool/Char/SInt/HInt/Byte/BInt ops on their domain, equal the Python definition. The -Q2 .fm is inspected to count how many calls the folder really evaluated; ops never folded are listed, not passed off as folded.',
         'Operand constants are themselves built through literal conversion builtins; outside an op\'s mathematical domain only agreement is demanded.', '5 C04')
NA = {}
def main():
    props = [json.loads(l) for l in open(os.path.join(V, 'properties.jsonl'))]
    checks = []
    for p in props:
        i = p['id']
        if i in CHECKS:
            lvl, tech, text, note, ref = CHECKS[i]
            checks.append({'property_id': i, 'quick_cmd': 'bin/check %s' % i, 'thorough_cmd': 'bin/check %s --tier thorough' % i,
                           'evidence_file': 'evidence/%s.json' % i, 'replay_cmd_template': 'bin/check %s --replay {path}' % i,
                           'engine': 'vf', 'level_claimed': {'category': lvl, 'text': text, 'design_ref': ref}, 'level_note': note, 'technique': tech})
    na = [{'property_id': p['id'], 'reason': NA.get(p['id'], 'runtime-monitoring check not built yet in this round (designed in DESIGN.md section 5); not claimed until it exists and is silent on the unchanged tree')}
          for p in props if p['id'] not in CHECKS]
    hooks = subprocess.run(['git', '-C', '/repo', 'log', '--format=%H %s'], stdout=subprocess.PIPE).stdout.decode().split('\n')
    hook_commits = [l.split(' ')[0] for l in hooks if 'verif hook' in l]
    m = {'version': 1,
         'setup_cmd': 'python3 vf/build.py plain asan',
         'hooks': {'guard': 'ALDOR_VERIF', 'enable': 'checks build a scratch copy of /repo\'s working tree with make CFLAGS="-O0 -g -DALDOR_VERIF" (vf/build.py); /repo itself is never built with the guard',
                   'baseline_off_cmd': 'bin/baseline-off', 'source_commits': hook_commits, 'add_only': True},
         'engines': [{'name': 'vf', 'path': 'vf/', 'serves_properties': sorted(CHECKS), 'kind_free_text': 'python drivers + C harnesses linked with the repository\'s own archives; monitors: reference models, differential oracles, sanitizer builds, fault injection'}],
         'checks': checks, 'not_applicable': na,
         'notes': 'exit 0 held / 1 violation / 2 inconclusive; known findings in known_findings.jsonl; build cache in $VF_WORK (default /var/tmp/vf-aldor)'}
    json.dump(m, open(os.path.join(V, 'MANIFEST.json'), 'w'), indent=1)
if __name__ == '__main__':
    main()
