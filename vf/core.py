"""Shared plumbing: run context, subprocesses with watchdog, parallel map,
findings matching, evidence writing, verdict/exit discipline."""
import os, sys, json, time, subprocess, shutil, signal, hashlib, random, traceback, re
from concurrent.futures import ThreadPoolExecutor

VERIF = os.path.dirname(os.path.dirname(os.path.abspath(__file__)))
OUT = os.environ.get('VF_OUT', VERIF)      # where evidence/, replay/, triage/ are written (scratch runs against a patched copy set VF_OUT)
sys.path.insert(0, VERIF)
from vf import build

NCPU = os.cpu_count() or 8

class Inconclusive(Exception):
    pass

def sha(b):
    if isinstance(b, str): b = b.encode()
    return hashlib.sha256(b).hexdigest()[:12]

class Proc:
    __slots__ = ('argv', 'rc', 'out', 'err', 'timeout', 'wall', 'sig')
    def __init__(self, argv, rc, out, err, timeout, wall):
        self.argv, self.rc, self.out, self.err, self.timeout, self.wall = argv, rc, out, err, timeout, wall
        self.sig = -rc if (rc is not None and rc < 0) else None
    @property
    def cause(self):
        if self.timeout: return 'watchdog'
        if self.sig: return 'signal %d' % self.sig
        return 'exit %d' % self.rc
    @property
    def xclass(self):
        """exit class: 'ok', 'fail', 'signal', 'watchdog'"""
        if self.timeout: return 'watchdog'
        if self.sig: return 'signal'
        return 'ok' if self.rc == 0 else 'fail'

_TCK = os.sysconf('SC_CLK_TCK')
def _pg_cpu(pgid):
    """CPU seconds (user+system, reaped children included) used so far by the processes of one process group"""
    tot = 0
    for d in os.listdir('/proc'):
        if not d.isdigit(): continue
        try:
            with open('/proc/%s/stat' % d, 'rb') as fh: st = fh.read()
        except OSError: continue
        f = st[st.rfind(b')') + 2:].split()
        try:
            if int(f[2]) != pgid: continue
            tot += int(f[11]) + int(f[12]) + int(f[13]) + int(f[14])
        except (IndexError, ValueError): continue
    return tot / _TCK

def run(argv, cwd=None, env=None, timeout=60, stdin=None, merge=False, limit=4 << 20, mem_mb=None):
    """Run a subprocess in its own process group with a wall-clock watchdog (and an address-space cap if mem_mb)."""
    if mem_mb: argv = ['prlimit', '--as=%d' % (mem_mb << 20)] + list(argv)
    e = dict(os.environ)
    e.pop('ALDORROOT', None)
    if env: e.update(env)
    t = time.time()
    try:
        p = subprocess.Popen(argv, cwd=cwd, env=e, stdin=subprocess.PIPE if stdin is not None else subprocess.DEVNULL,
                             stdout=subprocess.PIPE, stderr=subprocess.STDOUT if merge else subprocess.PIPE,
                             start_new_session=True)
    except OSError as ex:
        return Proc(argv, 127, b'', str(ex).encode(), False, 0.0)
    # The watchdog budget is CPU time of the child's process group, so that a loaded machine does not turn slow into "hang":
    # the wall-clock deadline only triggers a look at the CPU time used; a child that was starved gets more wall time (at most
    # 6x); a child that really sits idle (blocked, deadlocked) is stopped at the 6x cap.
    to = False
    first = True
    deadline = t + timeout; hard = t + 6 * timeout
    while True:
        try:
            out, err = p.communicate(stdin if first else None, timeout=max(0.05, deadline - time.time()))
            break
        except subprocess.TimeoutExpired:
            first = False
            now = time.time()
            cpu = _pg_cpu(p.pid)
            if now >= hard or cpu >= 0.8 * timeout:
                to = True
                try: os.killpg(p.pid, signal.SIGKILL)
                except OSError: pass
                out, err = p.communicate()
                break
            deadline = min(hard, now + max(1.0, 0.8 * timeout - cpu))
    if not to:
        try: os.killpg(p.pid, signal.SIGKILL)   # stragglers
        except OSError: pass
    return Proc(argv, p.returncode, (out or b'')[:limit], (err or b'')[:limit], to, time.time() - t)

_PM = {}
def _pm_call(i):
    return _PM['fn'](_PM['items'][i])

def pmap(fn, items, workers=None, procs=False):
    """parallel map.  Threads by default (workers mostly wait for subprocesses); procs=True forks worker
    processes for CPU-bound Python work (fn and items are inherited by fork, results must pickle)."""
    items = list(items)
    if not items: return []
    if procs:
        import multiprocessing as mp
        _PM['fn'] = fn; _PM['items'] = items
        ctx = mp.get_context('fork')
        with ctx.Pool(min(workers or NCPU, len(items))) as pool:
            try:
                return pool.map(_pm_call, range(len(items)), chunksize=1)
            finally:
                _PM.clear()
    with ThreadPoolExecutor(max_workers=workers or NCPU) as ex:
        return list(ex.map(fn, items))

# ---------------------------------------------------------------- findings

def load_findings():
    p = os.path.join(VERIF, 'known_findings.jsonl')
    res = []
    if os.path.exists(p):
        for l in open(p):
            l = l.strip()
            if l and not l.startswith('#'):
                res.append(json.loads(l))
    return res

class Ctx:
    """One run of one check."""
    def __init__(self, pid, level, variants=('plain',)):
        self.pid = pid
        self.level = level
        self.tier = os.environ.get('VERIF_TIER', 'quick')
        for i, a in enumerate(sys.argv):
            if a == '--tier' and i + 1 < len(sys.argv): self.tier = sys.argv[i + 1]
        if self.tier not in ('quick', 'thorough'): self.tier = 'quick'
        self.replay = None
        for i, a in enumerate(sys.argv):
            if a == '--replay' and i + 1 < len(sys.argv): self.replay = sys.argv[i + 1]
        try: self.seed = int(os.environ.get('VERIF_SEED', '0'))
        except ValueError: self.seed = 0
        self.rng = random.Random('%s/%d' % (pid, self.seed))
        self.t0 = time.time()
        self.viol = []          # (key, what, replaydir)
        self.known_hit = {}     # key -> what
        self.open = {f['key']: f for f in load_findings() if f.get('property') == pid and f.get('status') == 'open'}
        self.cov = {}
        self.samples = []
        self.assumptions = []
        self.notes = []
        self.nrep = 0
        try:
            self.b = build.ensure(variants)
        except build.BuildError as e:
            print('INCONCLUSIVE property=%s build of /repo working tree failed' % pid)
            print(str(e)[-3000:], file=sys.stderr)
            sys.exit(2)
        shutil.rmtree(os.path.join(OUT, 'replay', pid), ignore_errors=True)
        self.rundir = os.path.join(build.WORK, 'run', '%s-%d' % (pid, os.getpid()))
        shutil.rmtree(self.rundir, ignore_errors=True)
        os.makedirs(self.rundir)
        # remove stale run dirs of dead processes
        try:
            for d in os.listdir(os.path.dirname(self.rundir)):
                m = re.match(r'.*-(\d+)$', d)
                if m and not os.path.exists('/proc/%s' % m.group(1)):
                    shutil.rmtree(os.path.join(os.path.dirname(self.rundir), d), ignore_errors=True)
        except OSError: pass

    def q(self, quick, thorough):
        return thorough if self.tier == 'thorough' else quick

    def tmp(self, name):
        d = os.path.join(self.rundir, name)
        os.makedirs(d, exist_ok=True)
        return d

    def log(self, *a):
        print('[%s %6.1fs]' % (self.pid, time.time() - self.t0), *a, file=sys.stderr, flush=True)

    def violation(self, key, what, files=None, predicate_known=None):
        """Report a failure. `key` is matched exactly against open known findings."""
        if key in self.open:
            if key not in self.known_hit:
                self.known_hit[key] = what
            return False
        for k, w, _ in self.viol:
            if k == key: return True          # one replay per distinct key
        self.nrep += 1
        rd = os.path.join(OUT, 'replay', self.pid, '%03d-%s' % (self.nrep, re.sub(r'[^A-Za-z0-9_.:=+-]', '_', key)[:80]))
        shutil.rmtree(rd, ignore_errors=True)
        os.makedirs(rd, exist_ok=True)
        meta = {'property': self.pid, 'key': key, 'what': what, 'tree': self.b.th, 'seed': self.seed, 'tier': self.tier}
        for name, content in (files or {}).items():
            try:
                if isinstance(content, str): content = content.encode()
                p = os.path.join(rd, name.replace('/', '_'))
                with open(p, 'wb') as fh: fh.write(content)
            except Exception: pass
        json.dump(meta, open(os.path.join(rd, 'meta.json'), 'w'), indent=1)
        self.viol.append((key, what, rd))
        self.log('VIOLATION', key, what[:300])
        return True

    def sample(self, s, cap=8):
        if len(self.samples) < cap: self.samples.append(s)

    def finish(self, evaluations, distinct, rule, extra=None, min_eval=1, min_distinct=2, inconclusive=None):
        cov = {'evaluations': int(evaluations), 'distinct_nontrivial': int(distinct), 'rule': rule,
               'samples': self.samples or ['(none)']}
        cov.update(self.cov)
        if extra: cov.update(extra)
        cov['build'] = self.b.info
        cov['tree_hash'] = self.b.th
        cov['known_findings_hit'] = sorted(self.known_hit)
        cov['violation_keys'] = [k for k, _, _ in self.viol]
        if self.level == 'translation_validation':
            cov.setdefault('programs', int(evaluations)); cov.setdefault('disagreements_checked', len(self.viol) + len(self.known_hit))
        ev = {'property_id': self.pid, 'tier': self.tier, 'seed': self.seed, 'level': self.level,
              'coverage': cov, 'assumptions': self.assumptions, 'wall_s': round(time.time() - self.t0, 1),
              'violations': len(self.viol)}
        os.makedirs(os.path.join(OUT, 'evidence'), exist_ok=True)
        tmp = os.path.join(OUT, 'evidence', self.pid + '.json.tmp')
        json.dump(ev, open(tmp, 'w'), indent=1, default=str)
        os.replace(tmp, os.path.join(OUT, 'evidence', self.pid + '.json'))
        shutil.rmtree(self.rundir, ignore_errors=True)
        if os.environ.get('VF_TRIAGE'):
            os.makedirs(os.path.join(OUT, 'triage'), exist_ok=True)
            with open(os.path.join(OUT, 'triage', self.pid + '.jsonl'), 'w') as fh:
                for key, what, rd in self.viol:
                    fh.write(json.dumps({'property': self.pid, 'key': key, 'status': 'open', 'witness': os.path.relpath(rd, VERIF), 'what': what[:300]}) + '\n')
        for key, what in sorted(self.known_hit.items()):
            print('KNOWN-FINDING: property=%s %s :: %s' % (self.pid, key, what[:200].replace('\n', ' ')))
        if self.viol:
            for key, what, rd in self.viol:
                print('VIOLATION property=%s replay=%s key=%s' % (self.pid, rd, key))
            sys.exit(1)
        if inconclusive or evaluations < min_eval or distinct < min_distinct:
            print('INCONCLUSIVE property=%s %s (evaluations=%d distinct=%d)' % (self.pid, inconclusive or 'too few observations', evaluations, distinct))
            sys.exit(2)
        print('OK property=%s tier=%s seed=%d evaluations=%d distinct_nontrivial=%d wall=%.0fs' %
              (self.pid, self.tier, self.seed, evaluations, distinct, time.time() - self.t0))
        sys.exit(0)

def main_guard(fn):
    try:
        fn()
    except SystemExit:
        raise
    except Inconclusive as e:
        print('INCONCLUSIVE %s' % e); sys.exit(2)
    except Exception:
        traceback.print_exc()
        print('INCONCLUSIVE harness failure'); sys.exit(2)

# ---------------------------------------------------------------- fault text
FAULT_RE = re.compile(rb'Program fault|Bug:|Assertion failed|ERROR: AddressSanitizer|runtime error:|Aldor runtime: storage|Storage allocation error|stack smashing|double free or corruption|malloc\(\): |free\(\): invalid|corrupted size|corrupted top size|corrupted double-linked')

def fault_text(p):
    """None or a short class name when the process shows a fault/bug/assert/sanitizer report."""
    blob = p.out + b'\n' + p.err
    m = FAULT_RE.search(blob)
    if p.sig and not p.timeout:
        return 'signal%d' % p.sig
    if m:
        return m.group(0).decode(errors='replace')
    return None

ASAN_ENV = {'ASAN_OPTIONS': 'hard_rss_limit_mb=6000:detect_leaks=0:allow_user_segv_handler=0:handle_abort=1:abort_on_error=0:allocator_may_return_null=1:symbolize=1:malloc_context_size=5',
            'UBSAN_OPTIONS': 'print_stacktrace=1'}

def san_signature(p):
    """(kind, innermost repository function) from an ASan/UBSan report, or None"""
    raw = p.err + b'\n' + p.out
    i = raw.find(b'ERROR: AddressSanitizer')
    if i >= 0:
        blob = raw[i:i + 20000].decode(errors='replace')
        m = re.search(r'ERROR: AddressSanitizer: ([\w-]+)', blob)
        kind = 'asan:' + (m.group(1) if m else '?')
        for fm in re.finditer(r'#\d+ 0x[0-9a-f]+ in (\w+) (\S+)', blob):
            fn, path = fm.group(1), fm.group(2)
            if '/aldor/' in path and not fn.startswith('__'):
                return (kind, fn)
        return (kind, '?')
    i = raw.find(b'runtime error:')
    if i >= 0:
        j = raw.rfind(b'\n', 0, i) + 1
        k = raw.find(b'\n', i)
        line = raw[j:k if k >= 0 else len(raw)].decode(errors='replace')
        m = re.match(r'(\S+?):(\d+):\d+: runtime error: ([a-z ]+)', line)
        if m: return ('ubsan:' + m.group(3).strip().split(' for ')[0][:30], os.path.basename(m.group(1)))
        return ('ubsan:?', '?')
    return None

# ---------------------------------------------------------------- harness binaries
def harness(ctx, name, variant='plain', extra_src=(), extra_flags=()):
    """Compile /verif/harness/<name>.c against the snapshot's own archives."""
    b = ctx.b
    S = b.S if variant == 'plain' else b.S_asan
    out = os.path.join(ctx.rundir, '%s.%s' % (name, variant))
    flags = ['-g', '-O0', '-w'] if variant == 'plain' else \
            ['-g', '-O1', '-w', '-fno-omit-frame-pointer', '-fsanitize=address,bounds', '-fno-sanitize-recover=all', '-DSTO_USE_MALLOC']
    cmd = ['gcc'] + flags + list(extra_flags) + ['-DALDOR_VERIF', '-I' + S, os.path.join(VERIF, 'harness', name + '.c')] + list(extra_src) + \
          [os.path.join(S, 'libstruct.a'), os.path.join(S, 'libgen.a'), os.path.join(S, 'libport.a'), '-lm', '-o', out]
    p = run(cmd, timeout=300)
    if p.rc != 0:
        raise Inconclusive('harness %s (%s) does not compile against this tree: %s' % (name, variant, (p.err or p.out)[-1500:].decode(errors='replace')))
    return out

def fault_site(b, p, variant):
    """innermost repository function of a fault on the plain build, from the hook's backtrace"""
    blob = (p.err + p.out).decode(errors='replace')
    m = re.search(r'ALDOR_VERIF_BT begin\n(.*?)ALDOR_VERIF_BT end', blob, re.S)
    if not m:
        mm = re.search(r'Bug: ([^\n]{0,60})', blob)
        if mm: return 'bug:' + re.sub(r'[^A-Za-z]+', '-', mm.group(1))[:40]
        mm = re.search(r'Assertion failed[^\n]*file ([\w.]+)', blob) or re.search(r'([\w.]+):\d+: [^\n]*Assertion', blob)
        return 'assert:' + (mm.group(1) if mm else '?')
    addrs = re.findall(r'^\S*/aldor\(\+(0x[0-9a-f]+)\)', m.group(1), re.M)
    exe = b.aldor
    if not addrs: return '?'
    r = run(['addr2line', '-f', '-e', exe] + addrs[:12], timeout=60)
    names = r.out.decode(errors='replace').split('\n')[0::2]
    for nm in names:
        if nm and nm not in ('compSignalHandler', 'verifBacktrace', '??', 'osFaultHandler', 'osSignalHandler') and not nm.startswith('_'):
            return nm
    return '?'

def fault_chain(b, p, n=3):
    """like fault_site, but the innermost n repository functions joined with `<' (a finer key for faults inside the optimiser)"""
    blob = (p.err + p.out).decode(errors='replace')
    m = re.search(r'ALDOR_VERIF_BT begin\n(.*?)ALDOR_VERIF_BT end', blob, re.S)
    if not m: return fault_site(b, p, 'plain')
    addrs = re.findall(r'^\S*/aldor\(\+(0x[0-9a-f]+)\)', m.group(1), re.M)
    if not addrs: return '?'
    r = run(['addr2line', '-f', '-e', b.aldor] + addrs[:16], timeout=60)
    names = r.out.decode(errors='replace').split('\n')[0::2]
    out = []
    for nm in names:
        if nm and nm not in ('compSignalHandler', 'verifBacktrace', '??', 'osFaultHandler', 'osSignalHandler') and not nm.startswith('_') and nm not in out:
            out.append(nm)
            if len(out) == n: break
    return '<'.join(out) or '?'
