"""Source mutators for the totality check: random bytes, token-level mutation, stress shapes."""
import re, random

TOK = re.compile(r'''--[^\n]*|\+\+[^\n]*|"(?:[^"\n_]|_.)*"|[A-Za-z%][A-Za-z0-9?!]*|[0-9]+(?:\.[0-9]+)?(?:[eE][-+]?[0-9]+)?|\n|[ \t]+|==>|=>|:=|==|->|\+->|<<|>>|<=|>=|~=|\.\.|[-+*/^<>=~#$@&|\\,;:.'`!?_]|[()\[\]{}]|.''', re.S)
KEYWORDS = ['add', 'and', 'always', 'assert', 'break', 'but', 'by', 'case', 'catch', 'default', 'define', 'delay', 'do', 'else', 'except', 'export', 'exquo', 'extend',
            'finally', 'fix', 'fluid', 'for', 'free', 'from', 'generate', 'goto', 'has', 'if', 'import', 'in', 'inline', 'is', 'isnt', 'iterate', 'let', 'local', 'macro',
            'mod', 'never', 'not', 'of', 'or', 'pretend', 'quo', 'ref', 'rem', 'repeat', 'return', 'rule', 'select', 'then', 'throw', 'to', 'try', 'where', 'while', 'with', 'yield',
            '#pile', '#endpile', '#include', '#if', '#else', '#endif', '#assert', '#library', '==>', '+->', ':=', '==', '=>', '->', '$', '@', '::', '%']
OPEN = '([{'; CLOSE = ')]}'

def tokens(text):
    return TOK.findall(text)

def is_code(t):
    return not (t.startswith('--') or t.startswith('++') or t.startswith('"') or t.isspace())

def mutate_tokens(text, rng, nmut=None):
    """returns (mutant text, description, known_invalid)"""
    toks = tokens(text)
    code = [i for i, t in enumerate(toks) if is_code(t)]
    if not code: return text + '(', 'append-open', True
    desc = []
    known_invalid = False
    for _ in range(nmut or rng.choice([1, 1, 1, 2, 3, 5])):
        k = rng.choice(['del', 'dup', 'swap', 'ins', 'kw', 'rep50', 'trunc', 'unbal', 'ustr', 'hi', 'nul', 'esc', 'num'])
        code = [i for i, t in enumerate(toks) if is_code(t)]
        if not code: break
        i = rng.choice(code)
        if k == 'del': del toks[i]
        elif k == 'dup': toks.insert(i, toks[i])
        elif k == 'swap':
            j = rng.choice(code); toks[i], toks[j] = toks[j], toks[i]
        elif k == 'ins': toks.insert(i, rng.choice([toks[j] for j in code]) + ' ')
        elif k == 'kw': toks[i] = rng.choice(KEYWORDS) + ' '
        elif k == 'rep50': toks[i] = (toks[i] + ' ') * 50
        elif k == 'trunc': toks = toks[:i]
        elif k == 'unbal':
            toks.insert(i, rng.choice(OPEN + CLOSE))
        elif k == 'ustr': toks.insert(i, '"abc')
        elif k == 'hi': toks.insert(i, rng.choice(['\xe9', '_\xe9', 'x\xff', '\x80', '"\xfc"']))
        elif k == 'nul': toks.insert(i, rng.choice(['\x00', 'a\x00b', '_\x00']))
        elif k == 'esc': toks.insert(i, rng.choice(['_', '_\n', '__', '_ ', '_"']))
        elif k == 'num': toks[i] = rng.choice(['99999999999999999999999999', '1e999999', '0.0.0', '16rZZ', '37r10', '2r2', '1.', '.5', '1..', '0r0'])
        desc.append(k)
    return ''.join(toks), '+'.join(desc), False

def unbalance(text, rng):
    """one extra bracket at a code-token boundary of a line that is not a system command; the text must not contain
    escapes or odd bytes (caller uses it on the clean templates only).  Returns (text, description, True)."""
    lines = text.split('\n')
    cand = [i for i, l in enumerate(lines) if l.strip() and not l.lstrip().startswith('#') and not l.lstrip().startswith('--')]
    li = rng.choice(cand)
    toks = tokens(lines[li])
    code = [i for i, t in enumerate(toks) if is_code(t)]
    i = rng.choice(code)
    br = rng.choice(OPEN + CLOSE)
    toks.insert(i, br)
    lines[li] = ''.join(toks)
    return '\n'.join(lines), 'unbal-only(%s,line %d)' % (br, li + 1), True

def random_bytes(rng):
    n = rng.choice([0, 1, 2, 7, 64, 300, 2000, 20000, 65536])
    style = rng.random()
    if style < 0.4: return bytes(rng.getrandbits(8) for _ in range(n))
    if style < 0.7: return bytes(rng.choice(b'abcxyz ()[]{}:=;,+-*/"_\n\t#0123456789') for _ in range(n))
    alphabet = [k.encode() for k in KEYWORDS] + [b' ', b'\n', b'x', b'1', b'(', b')', b'{', b'}', b';', b'"', b'"s"', b'\n  ', b'\n\t']
    return b' '.join(rng.choice(alphabet) for _ in range(n // 4))

def stress(rng):
    """(bytes, description, known_invalid)"""
    k = rng.choice(['longline', 'deep(', 'deep[', 'deep{', 'selfinc', 'missinc', 'ifsoup', 'pile', 'deepif', 'manyerr', 'longid', 'longstr', 'divzero', 'deepcomment'])
    n = rng.choice([10, 100, 1000])
    if k == 'longline': return ('x := ' + '1 + ' * n + '1;\n').encode(), k, False
    if k.startswith('deep') and len(k) == 5:
        o = k[4]; c = CLOSE[OPEN.index(o)]
        bal = rng.random() < 0.5
        return ('x := ' + o * n + '1' + (c * n if bal else c * (n - 1)) + ';\n').encode(), k + ('' if bal else '-unbalanced'), not bal
    if k == 'selfinc': return b'#include "x.as"\nx := 1;\n', k, True
    if k == 'missinc': return b'#include "no-such-file-anywhere.as"\nx := 1;\n', k, True
    if k == 'ifsoup':
        parts = [rng.choice(['#if A', '#else', '#endif', '#elseif B', '#assert A', '#unassert A', 'x := 1;', '#if', '#endif junk']) for _ in range(rng.randint(1, 60))]
        return ('\n'.join(parts) + '\n').encode(), k, False
    if k == 'pile':
        lines = ['#pile']
        for _ in range(rng.randint(1, 80)):
            lines.append(rng.choice(['', ' ', '\t', '  \t ', '    ', '\t\t']) * rng.randint(0, 4) + rng.choice(['f(x: Integer): Integer ==', 'x := 1', 'if x then', 'else', 'repeat', 'y', 'where', '+ 2', 'import from Integer']))
        return ('\n'.join(lines) + '\n').encode(), k, False
    if k == 'deepif': return (('if a then ' * n) + 'b' + '\n').encode(), k, False
    if k == 'manyerr': return ('\n'.join('zz%d(1, 2, 3);' % i for i in range(n)) + '\n').encode(), k, True
    if k == 'longid': return (('a' * n * 100) + ' := 1;\n').encode(), k, False
    if k == 'longstr': return ('s := "' + 'q' * n * 100 + '";\n').encode(), k, False
    if k == 'divzero': return b'#include "aldor"\nimport from MachineInteger;\nf(): MachineInteger == { if false then 1 quo 0 else 2 }\nf();\n', k, False
    if k == 'deepcomment': return (('-- x\n' * n) + ('+' + '+ doc\n') * n + 'x := 1;\n').encode(), k, False
    return b'', 'empty', False

def ifsoup_accounted(rng):
    """conditional-compilation directive soup with the mutator's own accounting: depth and #else-seen per level decide
    validity (used in the seed-dependent slice only: the fixed sequence must not change)"""
    parts = []; stack = []; bad = False
    for _ in range(rng.randint(1, 40)):
        c = rng.choice(['#if ZqA', '#if ZqB', '#else', '#endif', '#assert ZqA', '#unassert ZqA', '-- comment', '', '#elseif ZqA', '#elseif ZqB'])
        if c.startswith('#if'): stack.append(False)
        elif c.startswith('#elseif'):
            if not stack or stack[-1]: bad = True        # #elseif needs an open #if whose #else has not been seen
        elif c == '#else':
            if not stack or stack[-1]: bad = True
            else: stack[-1] = True
        elif c == '#endif':
            if not stack: bad = True
            else: stack.pop()
        parts.append(c)
        if bad: break
    if stack: bad = True
    return ('\n'.join(parts) + ('\n' if rng.random() < 0.8 else '')).encode(), 'ifsoup-accounted' + ('-unbalanced' if bad else '-balanced'), bad
