"""Layout-only rewriting of Aldor source text (tokens untouched, only white space, comments and line structure change)."""
import re

# lexical classes that matter for layout: strings, comments (to end of line), system-command lines, white space, newlines, other
LEX = re.compile(r'''(?P<str>"(?:[^"\n_]|_.)*")|(?P<com>--[^\n]*|\+\+[^\n]*)|(?P<nl>\n)|(?P<ws>[ \t]+)|(?P<esc>_.)|(?P<word>[A-Za-z0-9%?!]+)|(?P<op>.)''', re.S)

def lex(text):
    return [(m.lastgroup, m.group(0)) for m in LEX.finditer(text)]

def is_pile(text):
    return bool(re.search(r'^#pile', text, re.M))

def eligible(text):
    """sources the rewriter understands: ASCII, no form feeds, no escapes at line ends, no unterminated strings"""
    if not text.isascii() or '\f' in text or '\r' in text or '\v' in text: return False
    for line in text.split('\n'):
        code = re.sub(r'"(?:[^"\n_]|_.)*"', 'S', line)
        code = re.sub(r'(--|\+\+).*$', '', code)
        if '"' in code: return False            # unterminated / odd string
        if code.rstrip().endswith('_'): return False
    return True

def lines_of(text):
    ls = text.split('\n')
    if ls and ls[-1] == '': ls.pop()
    return ls

def is_sys(line): return line.startswith('#')          # a system command starts in column one
def is_blank(line): return line.strip() == ''
def is_comment_only(line): return line.lstrip().startswith('--')      # '++' documentation lines are tokens, not comments

def rews(rng):
    return rng.choice([' ', '  ', '   ', '\t', ' \t', '    ', '\t '])

def respace_line(line, rng, keep_leading):
    """change the white-space runs inside a code line (optionally keeping the leading run untouched)"""
    toks = lex(line)
    out = []
    for i, (k, t) in enumerate(toks):
        if k == 'ws' and not (keep_leading and i == 0):
            out.append(rews(rng) if rng.random() < 0.6 else t)
        else: out.append(t)
    return ''.join(out)

def rewrite_braced(text, rng):
    """returns (new text, list of edit kinds)"""
    ls = lines_of(text)
    out = []; kinds = set()
    for idx, line in enumerate(ls):
        if is_sys(line) or is_comment_only(line):
            out.append(line)
        elif is_blank(line):
            if rng.random() < 0.3: kinds.add('drop-blank'); continue
            out.append(line)
        else:
            r = rng.random()
            l2 = line
            has_doc = '++' in re.sub(r'"(?:[^"\n_]|_.)*"', '""', line)
            if r < 0.5 and not has_doc: l2 = respace_line(line, rng, False); kinds.add('respace')
            if rng.random() < 0.25 and '--' not in l2 and not has_doc: l2 = l2 + rews(rng) + '-- ' + rng.choice(['note', 'x := 1; {', 'if then', '"', 'ends with the escape character _', 'escape then blanks _  ', 'a_b _c d_ e']); kinds.add('trailing-comment')
            # split the line at a white-space run that is outside strings/comments
            if rng.random() < 0.3 and not has_doc:
                toks = lex(l2)
                cut = [i for i, (k, t) in enumerate(toks) if k == 'ws' and 0 < i < len(toks) - 1 and toks[i + 1][0] != 'com' and not toks[i + 1][1].startswith('#') and all(kk != 'com' for kk, _ in toks[:i])]
                if cut:
                    i = rng.choice(cut)
                    mode = rng.random()
                    if mode < 0.6: sep = '\n' + ' ' * rng.randint(0, 12); kinds.add('split-line')
                    else: sep = toks[i][1] + '_\n' + ' ' * rng.randint(0, 8); kinds.add('escaped-newline')
                    l2 = ''.join(t for _, t in toks[:i]) + sep + ''.join(t for _, t in toks[i + 1:])
            out.append(l2)
        if rng.random() < 0.15: out.append(rng.choice(['', '   ', '\t'])); kinds.add('blank-line')
        if rng.random() < 0.12: out.append(' ' * rng.randint(0, 6) + '-- ' + rng.choice(['comment', 'f(x) == {', '#pile', '"unterminated', 'continued? _', 'continued? _ '])); kinds.add('comment-line')
    # join adjacent plain code lines
    res = []
    i = 0
    while i < len(out):
        line = out[i]
        if (i + 1 < len(out) and rng.random() < 0.15 and not is_sys(line) and not is_blank(line) and not is_comment_only(line)
                and '--' not in line and '++' not in line and not line.rstrip().endswith('_')
                and not is_sys(out[i + 1]) and not is_blank(out[i + 1]) and not is_comment_only(out[i + 1])):
            res.append(line.rstrip() + rews(rng) + out[i + 1].lstrip()); kinds.add('join-lines'); i += 2
        else:
            res.append(line); i += 1
    return '\n'.join(res) + '\n', sorted(kinds)

def rewrite_piled(text, rng):
    ls = lines_of(text)
    out = []; kinds = set()
    lead_tabs = any(re.match(r'[ ]*\t', l) for l in ls if not is_blank(l))
    factor = 1
    if not lead_tabs and rng.random() < 0.6: factor = rng.choice([2, 3, 4]); kinds.add('indent-x%d' % factor)
    tab2sp = lead_tabs and rng.random() < 0.5
    if tab2sp: kinds.add('tabs-to-spaces')
    for line in ls:
        if is_sys(line) or is_comment_only(line) or is_blank(line):
            if is_blank(line) and rng.random() < 0.3: kinds.add('drop-blank'); continue
            if is_comment_only(line) and line.lstrip().startswith('--') and rng.random() < 0.3: kinds.add('drop-comment'); continue
            out.append(line)
        else:
            m = re.match(r'[ \t]*', line); lead = m.group(0); rest = line[len(lead):]
            if factor != 1: lead = ' ' * (len(lead) * factor)
            elif tab2sp:
                col = 0
                for ch in lead: col = (col // 8 + 1) * 8 if ch == '\t' else col + 1
                lead = ' ' * col
            has_doc = '++' in re.sub(r'"(?:[^"\n_]|_.)*"', '""', rest)
            if rng.random() < 0.5 and not has_doc: rest = respace_line(rest, rng, False); kinds.add('respace')
            if rng.random() < 0.2 and '--' not in rest and not has_doc: rest = rest + rews(rng) + rng.choice(['-- note', '-- note _', '-- note _  ']); kinds.add('trailing-comment')
            if rng.random() < 0.2: rest = rest + rng.choice([' ', '\t', '   ']); kinds.add('trailing-space')
            out.append(lead + rest)
        if rng.random() < 0.15: out.append(rng.choice(['', '    ', '\t'])); kinds.add('blank-line')
        if rng.random() < 0.1: out.append(rng.choice(['-- comment in column one', '-- comment ending in the escape character _'])); kinds.add('comment-line')
    return '\n'.join(out) + '\n', sorted(kinds)

def rewrite(text, rng):
    return rewrite_piled(text, rng) if is_pile(text) else rewrite_braced(text, rng)
