"""Run Aldor programs on the different execution routes."""
import os, re, shutil
from vf.core import run, Proc, fault_text

def aldor(b, args, cwd, lib='aldor', env=None, timeout=120, variant='plain', stdin=None, noaslr=False):
    exe = b.aldor if variant == 'plain' else b.aldor_asan
    e = {}
    if variant != 'plain':
        from vf.core import ASAN_ENV
        e.update(ASAN_ENV)
    if env: e.update(env)
    pre = ['setarch', 'x86_64', '-R'] if noaslr else []
    return run(pre + [exe] + b.flags(lib) + list(args), cwd=cwd, env=e, timeout=timeout, stdin=stdin, mem_mb=(8000 if variant == 'plain' else None))

def interp_src(b, cwd, src, opts=(), lib='aldor', env=None, timeout=120):
    """aldor -Ginterp x.as ; compiler messages suppressed with -M no-warnings"""
    return aldor(b, list(opts) + ['-Mno-warnings', '-Ginterp', src], cwd, lib, env, timeout)

LIBFLAG = {'aldor': '-laldor', 'axllib': '-laxllib', 'foamlib': '-lfoamlib'}

def compile_ao(b, cwd, src, opts=(), lib='aldor', env=None, extra=(), timeout=120):
    return aldor(b, list(opts) + ['-Mno-warnings', '-Fao'] + list(extra) + [src], cwd, lib, env, timeout)

def interp_ao(b, cwd, ao, lib='aldor', env=None, timeout=120, opts=()):
    return aldor(b, list(opts) + ['-Mno-warnings', LIBFLAG[lib], '-Ginterp', ao], cwd, lib, env, timeout)

def compile_c(b, cwd, src, opts=(), lib='aldor', env=None, copts=(), timeout=120):
    """-Fc -Fmain, then gcc; returns (compile Proc, gcc Proc or None, exe path or None)"""
    base = os.path.splitext(os.path.basename(src))[0]
    p = aldor(b, list(opts) + list(copts) + ['-Mno-warnings', '-Fc', '-Fmain', src], cwd, lib, env, timeout)
    if p.rc != 0 or p.timeout:
        return p, None, None
    cs = [f for f in os.listdir(cwd) if re.match(re.escape(base) + r'(-aldormain|\d*)?\.c$', f)]
    exe = os.path.join(cwd, base + '.exe')
    g = run(['gcc', '-w', '-O0', '-I' + b.S, '-I' + cwd] + sorted(cs) + b.link_libs(lib) + ['-o', exe], cwd=cwd, timeout=300)
    if g.rc != 0:
        return p, g, None
    return p, g, exe

def run_exe(exe, cwd, env=None, timeout=60, stdin=None):
    return run([exe], cwd=cwd, env=env, timeout=timeout, stdin=stdin)

TRACE_RE = re.compile(rb'^(#\d+ +0x[0-9a-f]+ in .*|\.\.\.)$')
def norm_out(p, interp=False):
    """program output for comparison across routes; drops the interpreter's own call trace lines"""
    out = p.out
    if interp:
        out = b'\n'.join(l for l in out.split(b'\n') if not TRACE_RE.match(l))
    return out

def outcome(p, interp=False):
    return (norm_out(p, interp), p.xclass)
