"""Programs shared by the differential checks: generated (vf/gen.py) and the deterministic runnable corpus."""
import os, random, shutil
from vf import corpus, gen, routes
from vf.core import VERIF, fault_text

def corpus_runnable(b):
    lst = os.path.join(VERIF, 'corpus', 'runnable.txt')
    names = set(l.strip() for l in open(lst) if l.strip())
    res = []
    for s in corpus.sources(b):
        if '%s/%s' % (s['name'], s['lib']) in names:
            try: text = open(s['path'], encoding='latin-1').read()
            except OSError: continue
            res.append({'name': 'corpus:%s/%s' % (s['name'], s['lib']), 'lib': s['lib'], 'text': text, 'inc': s['dir'], 'expected': None, 'g': None})
    return res

def generated(seedstr, n, mi_bits=62, extra=None):
    res = []
    disc = 0
    for sd, g, text, out, cls, d in gen.programs(seedstr, n, mi_bits=mi_bits, extra=extra):
        res.append({'name': 'gen:' + sd, 'lib': 'aldor', 'text': text, 'inc': None, 'expected': (out, cls), 'g': g}); disc = d
    return res, disc

def pool(b, ctx, ngen_fixed, ngen_fresh, ncorpus, tag):
    """fixed generated pool + VERIF_SEED-dependent fresh slice + a fixed sample of the runnable corpus"""
    a, d1 = generated(tag + '-pool', ngen_fixed)
    f, d2 = generated('%s-fresh-%d' % (tag, ctx.seed), ngen_fresh)
    cr = corpus_runnable(b)
    rr = random.Random(tag + '-corpus')
    c = rr.sample(cr, min(len(cr), ncorpus))
    return a + f + c, d1 + d2

def place(d, prog, name='x.as'):
    os.makedirs(d, exist_ok=True)
    with open(os.path.join(d, name), 'w', encoding='latin-1') as fh: fh.write(prog['text'])

def inc(prog): return ['-I' + prog['inc']] if prog['inc'] else []

def run_route(b, d, prog, route, opts=(), env=None, timeout=120):
    """route in interp-src | interp-ao | c ; returns (stdout bytes or None, exit class, Proc of the decisive step)"""
    place(d, prog)
    o = list(opts) + inc(prog)
    if route == 'interp-src':
        p = routes.interp_src(b, d, 'x.as', o, lib=prog['lib'], env=env, timeout=timeout)
        return routes.norm_out(p, True), p.xclass, p
    if route == 'interp-ao':
        pc = routes.compile_ao(b, d, 'x.as', o, lib=prog['lib'], env=env, timeout=timeout)
        if pc.rc != 0 or pc.timeout: return None, 'compile-' + pc.xclass, pc
        p = routes.interp_ao(b, d, 'x.ao', lib=prog['lib'], env=env, timeout=timeout)
        return routes.norm_out(p, True), p.xclass, p
    if route == 'c':
        pc, g, exe = routes.compile_c(b, d, 'x.as', o, lib=prog['lib'], env=env, timeout=timeout)
        if not exe: return None, 'compile-' + (g or pc).xclass, (g or pc)
        p = routes.run_exe(exe, d, env=env, timeout=timeout)
        return p.out, p.xclass, p
    raise KeyError(route)
