"""Delta reduction of a generated program while a predicate on its rendering keeps holding."""
from vf import gen

def reduce(g, bad, protect=('decl', 'recdecl', 'unidecl')):
    def sublists(st):
        k = st[0]
        if k == 'ifs': return [st[2], st[3]]
        if k == 'try': return [st[1], st[2]] + ([st[3]] if st[3] else [])
        if k in ('while',): return [st[2]]
        if k == 'forr': return [st[4]]
        if k in ('forl',): return [st[3]]
        if k == 'forg': return [st[4]]
        if k == 'block': return [st[1]]
        return []
    def reduce_list(lst):
        ch = False
        for i in range(len(lst) - 1, -1, -1):
            save = lst[i]
            if save[0] in protect: continue
            del lst[i]
            ok = False
            try: ok = bad(g)
            except Exception: ok = False
            if ok: ch = True
            else:
                lst.insert(i, save)
                for sub in sublists(save):
                    if reduce_list(sub): ch = True
        return ch
    for _ in range(6):
        a = reduce_list(g.main)
        b = False
        for i in range(len(g.top) - 1, -1, -1):
            save = g.top[i]; del g.top[i]
            ok = False
            try: ok = bad(g)
            except Exception: ok = False
            if ok: b = True
            else: g.top.insert(i, save)
        if not (a or b): break
    return g
