-- opts: -Q0
#include "aldor"
#include "aldorio"
import from Machine;
import { BoolAnd: (Bool, Bool) -> Bool; BoolOr: (Bool, Bool) -> Bool; SIntAnd: (SInt, SInt) -> SInt; SIntOr: (SInt, SInt) -> SInt; SIntXOr: (SInt, SInt) -> SInt; } from Builtin;
import from MachineInteger, Boolean, List Boolean, List MachineInteger;
for a in [true, false] repeat for b in [true, false] repeat for c in [true, false] repeat {
	stdout << (BoolAnd(BoolOr(a::Bool, b::Bool), c::Bool)::Boolean) << (BoolOr(a::Bool, BoolAnd(b::Bool, c::Bool))::Boolean) << " ";
}
stdout << newline;
for x in [6, 3] repeat for y in [5, 12] repeat {
	stdout << (SIntAnd(SIntOr(x::SInt, y::SInt), 9::SInt)::MachineInteger) << " " << (SIntOr(SIntXOr(x::SInt, y::SInt), 8::SInt)::MachineInteger) << " " << (SIntXOr(SIntAnd(x::SInt, y::SInt), 7::SInt)::MachineInteger) << " " << (SIntAnd(SIntXOr(x::SInt, y::SInt), 7::SInt)::MachineInteger) << "  ";
}
stdout << newline;
