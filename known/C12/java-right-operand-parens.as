-- opts: -Q3
#include "aldor"
#include "aldorio"
macro MI == MachineInteger;
macro INT == Integer;
import from MI, INT, Boolean, String, List MI;
pM(x: MI): () == stdout << x << newline;
pI(x: INT): () == stdout << x << newline;
pB(x: Boolean): () == stdout << x << newline;
pS(x: String): () == stdout << x << newline;
pL(x: List MI): () == stdout << x << newline;

zqrest(l: List MI): List MI == if empty? l then l else rest l;
zqap(f: MI -> MI, x: MI): MI == f f x;
zqnop(): () == {};
ZQK6 ==> (-3);
macro ZQM2(x) == (((x) * (x)) + (-5));
define ZqCat: Category == with { val: % -> MI; twice: % -> MI; default twice(x: %): MI == 2 * val x };
ZqDomA: ZqCat with { mkA: MI -> % } == add { Rep == MI; import from Rep; mkA(n: MI): % == per n; val(x: %): MI == rep x + 7 }
ZqDomB: ZqCat with { mkB: MI -> % } == add { Rep == MI; import from Rep; mkB(n: MI): % == per n; val(x: %): MI == rep x + (-5); twice(x: %): MI == 5 * rep x }
ZqBox(T: ZqCat): with { box: T -> %; get: % -> MI } == add { Rep == T; import from Rep; box(t: T): % == per t; get(b: %): MI == twice(rep b) + 4 }
import from ZqDomA, ZqDomB, ZqBox ZqDomA, ZqBox ZqDomB;
zqmk1(k: MI): MI -> MI == (x: MI): MI +-> (x * (k rem 17));
zqgen2(n: MI): Generator MI == generate { for i: MI in 1..n repeat { if (i rem 2) = 0 then yield (i + (i rem 5)) } };
zqo3(x: MI): MI == x + (-1);
zqo3(s: String): MI == (#s) * 2;
-- main
zqv4: Boolean := false;
zqv5: List MI := reverse(reverse([1000, (-2)]));
zqv6: INT := (if zqv4 then 1000000000000000000000000000007 else (-10000000000000000000000000));
zqr7: Record(p: MI, q: INT) := [val(mkB((#zqv5))), (10 rem 2)];
zqu8: Union(i: MI, t: String) := ["c"];
pL(cons(1000, reverse(cons(5, zqv5))));
pM((((2 * 256) + (2 + 3)) - ((477207 + (-1)) + zqo3(("" + "}0:")))));

