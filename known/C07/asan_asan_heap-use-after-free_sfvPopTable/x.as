
-- From bug 1261 by Saul Youssef

--> testint

#include "axllib"
#pile

MC ==> Record(Obj:Type,Mor:(Obj,Obj)->with)

define FunctorCategory(A:MC,B:MC):Category == with
    Obj:Type
    Mor:(Obj,Obj)->with
    
Functor(A:MC,B:MC):FunctorCategory(A,B) with == add
    (Obj:_Type,Mor:(Obj,Obj)->with) == explode A

