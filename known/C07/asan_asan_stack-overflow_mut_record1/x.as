-- Copyright (c) 1990-2007 Aldor Software Organization Ltd (Aldor.org).
--> testrun -l axllib
#pile

#include "axllib.as"

%: with
    new: ()-> Pack
 == add
     Rep ==> Record()
     import from Rep
     new():% == per []

