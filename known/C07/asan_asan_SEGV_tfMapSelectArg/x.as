--* From postmaster%watson.vnet.ibm.com@yktvmv.watson.ibm.com  Fri Oct 28 10:43:48 1994
--* Received: from yktvmv-ob.watson.ibm.com by watson.ibm.com (AIX 3.2/UCB 5.64/930311)
--*           id AA21662; Fri, 28 Oct 1994 10:43:48 -0400
--* Received: from watson.vnet.ibm.com by yktvmv.watson.ibm.com (IBM VM SMTP V2R3)
--*    with BSMTP id 1689; Fri, 28 Oct 94 10:43:54 EDT
--* Received: from YKTVMV by watson.vnet.ibm.com with "VAGENT.V1.0"
--*           id <A.BRONSTEI.NOTE.YKTVMV.4039.Oct.28.10:43:54.-0400>
--*           for asbugs@watson; Fri, 28 Oct 94 10:43:54 -0400
--* Received: from inf.ethz.ch by watson.ibm.com (IBM VM SMTP V2R3) with TCP;
--*    Fri, 28 Oct 94 10:43:53 EDT
--* Received: from vinci.inf.ethz.ch (bronstei@vinci.inf.ethz.ch [129.132.12.46]) by inf.ethz.ch (8.6.9/8.6.9) with ESMTP id PAA16099 for <asbugs@watson.ibm.com>; Fri, 28 Oct 1994 15:43:45 +0100
--* From: Manuel Bronstein <bronstei@inf.ethz.ch>
--* Received: (bronstei@localhost) by vinci.inf.ethz.ch (8.6.8/8.6.6) id PAA24651 for asbugs@watson.ibm.com; Fri, 28 Oct 1994 15:43:44 +0100
--* Date: Fri, 28 Oct 1994 15:43:44 +0100
--* Message-Id: <199410281443.PAA24651@vinci.inf.ethz.ch>
--* To: asbugs@watson.ibm.com
--* Subject: [2] Tuple Type is unusable at runtime

--@ Fixed  by: <Who> <Date>
--@ Tested by: <Name of new or existing file in test directory>
--@ Summary:   <Description of real problem and the fix>

-- Command line: asharp -Fx foo.as
-- Version: 0.37.0
-- Original bug file name: foo.as

------------------------------- foo.as ----------------------------------
-- It looks like "Tuple Type" is ok at compile-time, but provokes problems
-- at runtime:
--
-- % asharp -Fx foo.as
-- % foo
-- Looking in Foo(T==<value>) for foo with code 905550213
-- Export not found

#include "axllib"

macro Z == SingleInteger;

Foo(T:Tuple Type): with {
	foo: () -> %;
} == add {
	macro Rep == Z;
	import from Rep;
	foo():%	== per 1;
}

m:Foo() := foo();

n:Foo(Z,Z) := foo();


