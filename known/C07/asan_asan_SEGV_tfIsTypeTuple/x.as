-- Copyright (c) 1990-2007 Aldor Software Organization Ltd (Aldor.org).
--> testcomp
--> testrun -Q3 -l axllib

#include "axllib"

Dense ==> Join(DenseStorageCategory, BasicType);


make(T:Dense, x1:T, x2:T):RawRecord(lo:T, hi:T) == [x1, x2];

show(T:Dense, rec:RawRecord"ü"(lo:T, hi:T)):() ==
{
   print << "rec.lo = " << (rec.lo) << newline;
   print << "rec.hi = " << (rec.hi) << newline;
}


main():() ==
{
   import from SingleInteger;
   show(SingleInteger, make(SingleInteger, 42, 21));
}


main();
