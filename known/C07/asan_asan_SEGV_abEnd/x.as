-- Copyright (c) 1990-2007 Aldor Software Organization Ltd (Aldor.org).
--> testerrs
#pile

#include "axllib"

C1: Category == with
		=:(%, %) -> %

		default	(a:%) = (y:%):% == a


C2: Category == with
		pietro: (%, %, %) -> Integer

Y: 99999999999999999999999999 == add
	(x:%) = (y:%): % == x

Z: C2 == add
	pietro(x:%,y:%,z:%): Integer == 1

#if TestErrorsToo

X: Join(C1, C2) with
		+: (%, %) -> %
		-: (%, %) -> %
		*: (%, %) -> %
		>: (%, %) -> %
    		nil: Integer
   == Y add
      (x:%) + (y:%): % == x
      (x:%) - (y:%): % == x

#endif
