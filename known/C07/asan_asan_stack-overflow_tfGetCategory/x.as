--* From mnd@knockdhu.dcs.st-and.ac.uk  Mon Mar  6 16:38:38 2000
--* Received: from knockdhu.dcs.st-and.ac.uk (knockdhu.dcs.st-and.ac.uk [138.251.206.239])
--* 	by nagmx1.nag.co.uk (8.9.3/8.9.3) with ESMTP id QAA15616
--* 	for <ax-bugs@nag.co.uk>; Mon, 6 Mar 2000 16:38:32 GMT
--* Received: (from mnd@localhost)
--* 	by knockdhu.dcs.st-and.ac.uk (8.8.7/8.8.7) id QAA07221
--* 	for ax-bugs@nag.co.uk; Mon, 6 Mar 2000 16:44:06 GMT
--* Date: Mon, 6 Mar 2000 16:44:06 GMT
--* From: mnd <mnd@knockdhu.dcs.st-and.ac.uk>
--* Message-Id: <200003061644.QAA07221@knockdhu.dcs.st-and.ac.uk>
--* To: ax-bugs@nag.co.uk
--* Subject: [9] Embeddings fail in presence of `pretend'

--@ Fixed  by: <Who> <Date>
--@ Tested by: <Name of new or existing file in test directory>
--@ Summary:   <Description of real problem and the fix>

-- Command line: axiomxl -Ffm emb00.as
-- Version: 1.1.12p5 (personal edition)
-- Original bug file name: emb00.as


#include "axllib"

%:with { foo: MyString -> %; } == add
{
   Rep == String;

   foo(x:%):% ==
   {
      local r:String;

      -- This line cause the compiler to invent `local r:Rep' instead
      -- of using the `r:String' that we already declared.
      r := rep x;

      x;
   }
}

