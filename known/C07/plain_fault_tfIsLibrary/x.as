--* From youssef@mailer.scri.fsu.edu  Tue Aug 26 18:59:41 1997
--* Received: from nagmx1.nag.co.uk by red.nag.co.uk via SMTP (920330.SGI/920502.SGI)
--* 	for /home/red5/axiom/support/recvbug id AA16124; Tue, 26 Aug 97 18:59:41 +0100
--* Received: from mailer.scri.fsu.edu (mailer.scri.fsu.edu [144.174.112.142])
--*           by nagmx1.nag.co.uk (8.8.4/8.8.4) with ESMTP
--* 	  id TAA22502 for <ax-bugs@nag.co.uk>; Tue, 26 Aug 1997 19:02:32 +0100 (BST)
--* Received: from sp2-2.scri.fsu.edu (sp2-2.scri.fsu.edu [144.174.128.92]) by mailer.scri.fsu.edu (8.8.5/8.7.5) with SMTP id OAA27332; Tue, 26 Aug 1997 14:00:41 -0400 (EDT)
--* From: Saul Youssef <youssef@scri.fsu.edu>
--* Received: by sp2-2.scri.fsu.edu (5.67b) id AA18324; Tue, 26 Aug 1997 14:00:40 -0400
--* Date: Tue, 26 Aug 1997 14:00:40 -0400
--* Message-Id: <199708261800.AA18324@sp2-2.scri.fsu.edu>
--* To: adk@scri.fsu.edu, ax-bugs@nag.co.uk, edwards@scri.fsu.edu,
--*         youssef@scri.fsu.edu
--* Subject: [4] category defaults with conditionals

--@ Fixed  by: <Who> <Date>
--@ Tested by: <Name of new or existing file in test directory>
--@ Summary:   <Description of real problem and the fix>

-- Command line: axiomxl -g interp
-- Version: 1.1.9a
-- Original bug file name: bug0.as

--+ --
--+ --  I'm trying to define the category PartialOrder below.  In 
--+ --  general, this isn't a BasicType and just has the signatures
--+ --  <= and >=.  However, if is a BasicType, I would like to 
--+ --  supply the additional operations > and <.  I can also supply
--+ --  these by default, but this doesn't seem to work and the 
--+ --  compiler complains that there isn't any "=" defined, in
--+ --  spite of the "if % has BasicType ..."  
--+ --
--+ #include "axllib"
--+ #pile
--+ 
--+ --define PartialOrder:Category == BasicType with -- use this instead and there's no error
--+ define PartialOrder:Category == with 
--+   <=:(%,%) -> Boolean
--+   >=:(%,%) -> Boolean
--+   if % has BasicType then
--+     < :(%,%) -> Boolean
--+     > :(%,%) -> Boolean
--+     
--+   default
--+     >=(a:%,b:%):Boolean == b<=a
--+     if % has BasicType then
--+       < (a:%,b:%):Boolean == a<=b and not (a=b)
--+       > (a:%,b:%):Boolean == a>=b and not (a=b)
--+     
--+ #endpile
--+   
--+   
--
--  I'm trying to define the category PartialOrder below.  In 
--  general, this isn't a BasicType and just has the signatures
--  <= and >=.  However, if is a BasicType, I would like to 
--  supply the additional operations > and <.  I can also supply
--  these by default, but this doesn't seem to work and the 
--  compiler complains that there isn't any "=" defined, in
--  spite of the "if % has BasicType ..."  
--
#include "axllib"
#pile

--define PartialOrder:Category == BasicType with -- use this instead and there's no error
define PartialOrder:Category == with 
  <=:(%,%) -> Boolean
  >=:(%,%) -> Boolean
  if % has BasicType then
    < :(%,%) -> Boolean
    > :(%,%) -> Boolean
    
  default
    >=(a:%,b:%):Boolean == b<=a
    if % has BasicType then
      < (a:%,b:%):Boolean == a<=b and = not (a=b)
      > (a:%,b:%):Boolean == a>=b and not (a=b)
    
#endpile
  
  
