-- Copyright (c) 1990-2007 Aldor Software Organization Ltd (Aldor.org).
--> testgen c -Nsys=fortran-cmplx-void
--> testcomp -Nsys=fortran-cmplx-void
-- This test file only applies to platforms which support Fortran
-- functions that return a complex value.
#include "axllib"

%  ==> SingleFloat;
SC ==> Complex SF; -- FSComplex;

import from SF;

import {
	x: () -> (SC);
	y: (() -> SC) -> ();
} from Foreign Fortran; 

export {
	xl1: () -> SC;
} to Foreign 