--* From postmaster%watson.vnet.ibm.com@yktvmv.watson.ibm.com  Wed Nov  2 12:52:47 1994
--* Received: from yktvmv-ob.watson.ibm.com by watson.ibm.com (AIX 3.2/UCB 5.64/930311)
--*           id AA17249; Wed, 2 Nov 1994 12:52:47 -0500
--* Received: from watson.vnet.ibm.com by yktvmv.watson.ibm.com (IBM VM SMTP V2R3)
--*    with BSMTP id 1975; Wed, 02 Nov 94 12:52:54 EST
--* Received: from YKTVMV by watson.vnet.ibm.com with "VAGENT.V1.0"
--*           id <A.BRONSTEI.NOTE.YKTVMV.0123.Nov.02.12:52:53.-0500>
--*           for asbugs@watson; Wed, 02 Nov 94 12:52:54 -0500
--* Received: from inf.ethz.ch by watson.ibm.com (IBM VM SMTP V2R3) with TCP;
--*    Wed, 02 Nov 94 12:52:52 EST
--* Received: from ru7.inf.ethz.ch (bronstei@ru7.inf.ethz.ch [129.132.12.16]) by inf.ethz.ch (8.6.9/8.6.9) with ESMTP id SAA01116 for <asbugs@watson.ibm.com>; Wed, 2 Nov 1994 18:52:42 +0100
--* From: Manuel Bronstein <bronstei@inf.ethz.ch>
--* Received: (bronstei@localhost) by ru7.inf.ethz.ch (8.6.8/8.6.6) id SAA09885 for asbugs@watson.ibm.com; Wed, 2 Nov 1994 18:52:41 +0100
--* Date: Wed, 2 Nov 1994 18:52:41 +0100
--* Message-Id: <199411021752.SAA09885@ru7.inf.ethz.ch>
--* To: asbugs@watson.ibm.com
--* Subject: [5] cannot have only one optional parameter to a type

--@ Fixed  by: <Who> <Date>
--@ Tested by: <Name of new or existing file in test directory>
--@ Summary:   <Description of real problem and the fix>

-- Command line: asharp -M2 defparam2.as
-- Version: 0.37.0
-- Original bug file name: defparam2.as

----------------------------- defparam2.as ----------------------------
--
-- % asharp -M2 defparam2.as
-- "defparam2.as", line 26: q:MyType() == foo 5;
--                          ..^...........^
-- [L19 C3] #1 (Error) There are no suitable meanings for the operator `MyType'.
--   MyType: (SingleInteger == 1) -> (
--                 BasicType with foo: ..., a local
--       rejected because it cannot take 0 arguments.

#include "axllib"

macro Z == SingleInteger SingleInteger SingleInteger SingleInteger SingleInteger SingleInteger SingleInteger SingleInteger SingleInteger SingleInteger SingleInteger SingleInteger SingleInteger SingleInteger SingleInteger SingleInteger SingleInteger SingleInteger SingleInteger SingleInteger SingleInteger SingleInteger SingleInteger SingleInteger SingleInteger SingleInteger SingleInteger SingleInteger SingleInteger SingleInteger SingleInteger SingleInteger SingleInteger SingleInteger SingleInteger SingleInteger SingleInteger SingleInteger SingleInteger SingleInteger SingleInteger SingleInteger SingleInteger SingleInteger SingleInteger SingleInteger SingleInteger SingleInteger SingleInteger SingleInteger ;

MyType(v:Z == 1):BasicType with { foo: Z -> % } == Z add {
	macro Rep == Z;
	import from Rep;

	foo(x:Z):% == per x;
}

import from Z;

-- this fails to compile
-- the problem does not occur if a non-optional argument is added to MyType.
q:MyType() == foo 5;

