-- Copyright (c) 1990-2007 Aldor Software Organization Ltd (Aldor.org).
--> testcomp
#pile

#include "axllib.as"

macro Agg E == with
	bracket:   Generator E -> %
	generator: % -> Generator E

Links(S: Type): Agg S == add pretend Agg S
Vect(T: Type): Agg T == add pretend Agg T

f(): () ==
	export lv: Links Vect Integer
	export f: Vect Integer -> Links Integer

	vl: Vect Links Integer := [with  v for v: Vect Integer in lv]
