--* From bill@scl.csd.uwo.ca  Tue Jul 24 17:54:37 2001
--* Received: from mail.london-1.starlabs.net (mail.london-1.starlabs.net [212.125.75.12])
--* 	by nag.co.uk (8.9.3/8.9.3) with SMTP id RAA27565
--* 	for <ax-bugs@nag.co.uk>; Tue, 24 Jul 2001 17:54:35 +0100 (BST)
--* From: bill@scl.csd.uwo.ca
--* X-VirusChecked: Checked
--* Received: (qmail 10790 invoked from network); 24 Jul 2001 16:50:57 -0000
--* Received: from ptibonum.scl.csd.uwo.ca (129.100.16.102)
--*   by server-7.tower-4.starlabs.net with SMTP; 24 Jul 2001 16:50:57 -0000
--* Message-Id: <200107241654.f6OGs1R02753@millennium.scl.csd.uwo.ca>
--* Date: Tue, 24 Jul 2001 12:54:01 -0400
--* To: ax-bugs@nag.co.uk
--* Subject: [1][compfault] coredumps on compilation

--@ Fixed  by: <Who> <Date>
--@ Tested by: <Name of new or existing file in test directory>
--@ Summary:   <Description of real problem and the fix>

-- Command line: axiomxl -Fao -Fo -Fasy tst.as
-- Version: 1.1.12 for LINUX(glibc)
-- Original bug file name: /scl/people/bill/Aldor/MathML/tst.as

--+ file coredumps on compilation
--+ 
--+ axiomxl -Fao -Fo -Fasy tst.as
--+ Program fault (segmentation violation).#1 (Error) Program fault (segmentation violation).
#include "axllib"

INT ==> Integer;

Tst:2r2 == add {
  import from INT;
  (a,b) == (1,2)
}

