-- Copyright (c) 1990-2007 Aldor Software Organization Ltd (Aldor.org).
--
-- numeral0.as
--
-- This file is used by ar6.sh.
#pile

# # # # # # # # # # # # # # # # # # # # # # # # # # # # # # # # # # # # # # # # # # # # # # # # # # add "axllib.as"

export Zero: with == include
