-- Copyright (c) 1990-2007 Aldor Software Organization Ltd (Aldor.org).
--> testrun  -l axllib
--> testrun -O -l axllib
--> testcomp

#include "axllib.as"
#pile
SI ==> SingleInteger

extend Enumeration(T: Tuple Type): with
    card: SI
    ord: % -> SI
    val: SI -> %
  == add
    Rep ==> BSInt
    card: SI == length T
    ord(e: %): SI == (rep e)::SI + 1
    val(i: SI): % == per((i - #endpile )::BSInt)

import from SI

test(): () ==
  E == Enumeration(a,b,c)
  import from E
  i: SI == card$E
  e: E == val 1
  j: SI == ord e
  print . "i = ~a, e = ~a, j = ~a~n" . (<< i, << e, << j)

test()

