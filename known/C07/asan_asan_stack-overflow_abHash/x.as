-- Copyright (c) 1990-2007 Aldor Software Organization Ltd (Aldor.org).
--> testgen f

#include "axllib"
#pile

DynamicSetCategory: Category == BasicType with

  roughEqual?: (%,%) -> Boolean
  reduce: % -> %

DynamicRingCategory: Category == Join(DynamicSetCategory, Ring) with

  roughExquo: (%,%) -> %
  roughZero?: % -> Boolean
  power: (%,Integer) -> %
  * : (Integer,%) -> %
  * : (SingleInteger,%) -> %

  one? : % -> Boolean
  recip : % -> Union(element:%,failed:Enumeration(failed))

  default x,x1,x2: %
  default n: Integer
  default ns: SingleInteger

  
    n * x :% == (n::%) * x
    ns * x :% == (ns::%) * x

    roughEqual?(x1,x2):Boolean == roughZero?(x1-x2)

    local times(x: %, y: %): % == x * y
    power(x: %, n: Integer): % ==
      import from BinaryPowering(%, times, Integer)
      power(1, x, n)

    (x ^ n):% == power(x,n)

DynamicFieldCategory: Category == Join(DynamicRingCategory, Field) with

  exquo: (%,%) -> Union(element:%,failed:Enumeration(failed))

  default

    default x,x1,x2: %
    default uef: Union(element:%,failed:Enumeration(failed))
    default n: Integer

    (x ^ n):% ==
      n = 0 => 1
      n > 0 => reduce(power(x,n))
      reduce(power(inv(x),-n))

    (x1 / x2):% == reduce(x1 * inv(x2))
    (x1 \ x2):% == reduce(inv(x1) * x2)

    (exquo)(x1,x2):Union(element:%,failed:Enumeration(failed)) ==
      zero? x2 => [failed]
      zero?(x1 rem x2) => [reduce(x1 quo x2)]
      [failed]

    inv(x):% ==
      (uef:= recip(x)) case failed =>
        error "Division by 0 in inv from DynamicFieldCategory"
      uef.element
