--* From Manuel.Bronstein@sophia.inria.fr  Tue Jul  2 14:18:04 2002
--* Received: from welly-1.star.net.uk (welly-1.star.net.uk [195.216.16.165])
--* 	by nag.co.uk (8.9.3/8.9.3) with SMTP id OAA16602
--* 	for <ax-bugs@nag.co.uk>; Tue, 2 Jul 2002 14:18:01 +0100 (BST)
--* Received: (qmail 6170 invoked from network); 2 Jul 2002 13:17:31 -0000
--* Received: from 6.star-private-mail-12.star.net.uk (HELO smtp-in-6.star.net.uk) (10.200.12.6)
--*   by delivery-1.star-private-mail-4.star.net.uk with SMTP; 2 Jul 2002 13:17:31 -0000
--* Received: (qmail 21431 invoked from network); 2 Jul 2002 13:17:30 -0000
--* Received: from mail17.messagelabs.com (62.231.131.67)
--*   by smtp-in-6.star.net.uk with SMTP; 2 Jul 2002 13:17:30 -0000
--* X-VirusChecked: Checked
--* Received: (qmail 28203 invoked from network); 2 Jul 2002 13:17:30 -0000
--* Received: from automatix.inria.fr (138.96.111.13)
--*   by server-9.tower-17.messagelabs.com with SMTP; 2 Jul 2002 13:17:30 -0000
--* Received: by automatix.inria.fr (8.11.6/8.11.6) id g62DHTg10067 for ax-bugs@nag.co.uk; Tue, 2 Jul 2002 15:17:29 +0200
--* Date: Tue, 2 Jul 2002 15:17:29 +0200
--* From: Manuel Bronstein <Manuel.Bronstein@sophia.inria.fr>
--* Message-Id: <200207021317.g62DHTg10067@automatix.inria.fr>
--* To: ax-bugs@nag.co.uk
--* Subject: [5] bad '==' assignment

--@ Fixed  by: <Who> <Date>
--@ Tested by: <Name of new or existing file in test directory>
--@ Summary:   <Description of real problem and the fix>

-- Command line: aldor -ginterp badhas.as
-- Version: 1.0.1
-- Original bug file name: badhas.as

---------------------------- badhas.as -----------------------------
--
-- THIS IS THE ROOT-CAUSE OF MARC's PROBLEMS WITH SUP/RMP/SMP
--
-- % aldor -ginterp badhas.as
-- b0 = false
-- has? = true
-- false
--
-- This bug disappears if 'b0:Boolean ==' becomes 'local b0:Boolean =='
--

#include "axllib"

Foo(R:Ring):Ring with { foo?: () -> Boolean } == EuclideanDomain add {
	local lfoo?:Boolean == {
		b0: Boolean == (R has EuclideanDomain);
		print << "b0 = " << b0 << newline;
		print << "has? = " << (R has R) << newline;
		b0;
	}

	foo?():Boolean == lfoo?;
}

print << foo?()$Foo(Integer) << newline;


