-----bugExtend1.as
--
-- aldor -g interp bugExtend1.as
--
 
#include "aldor"
 
define definedIOType == Join(InputType,OutputType);
 
extend InputType: DataStructureType;--definedIOType;
--#include "algebra"
 
(MachineInteger has MachineInteger)
