--> testrun -fx -laxllib
--@ Bug Number:  bug1025.as 
--@ Fixed  by:  PAB   
--@ Tested by:  defarg9.as 
--@ Summary:    Default parameters caused mild confusion in type of a lambda 

-- Command line: axiomxl -Fx defparam.as
-- Version: 1.1.3
-- Original bug file name: defparam.as

----------------------------- defparam.as ----------------------------------
--
-- Looks like default parameters are still broken in 1.1.3:
--
-- % axiomxl -Fx defparam.as
-- % defparam
-- Looking in Foo(Integer, ??) for - with code 318693034
-- Export not found
--

#include "axllib.as"

macro Z == Integer;

Foo(R:Ring, avar:String == "x"):Ring == add {
	macro Rep == R;

	import from Z, Rep;

	0:% == foo 0;
	1:% == foo 1;
	(port:TextWriter) << (p:%):TextWriter   == port;
	coerce(n:SingleInteger):% == n::Z::%;
	coerce(n:Z):% == foo(n::R);
	(p:%)^(n:Z):% == p;
	foo(c:R):% == per c;
	-(p:%):% == p;
	(x_é:%) = (y:%):Boolean == false;
	(p:%) + (q:%):% == p;
	(p:%) * (q:%):% == p;
}

macro F == Foo(Z, "x");

bar():Boolean == {
	import from Z, F;
	a:F := 1;
	a - 1 = 0
}

bar();

