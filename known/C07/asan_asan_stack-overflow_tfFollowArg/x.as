--* From Manuel.Bronstein@sophia.inria.fr  Tue May 30 16:41:14 2000
--* Received: from droopix.inria.fr (IDENT:root@droopix.inria.fr [138.96.111.4])
--* 	by nagmx1.nag.co.uk (8.9.3/8.9.3) with ESMTP id QAA29641
--* 	for <ax-bugs@nag.co.uk>; Tue, 30 May 2000 16:40:40 +0100 (BST)
--* Received: by droopix.inria.fr (8.10.0/8.10.0) id e4UFTxD26494 for ax-bugs@nag.co.uk; Tue, 30 May 2000 17:29:59 +0200
--* Date: Tue, 30 May 2000 17:29:59 +0200
--* From: Manuel Bronstein <Manuel.Bronstein@sophia.inria.fr>
--* Message-Id: <200005301529.e4UFTxD26494@droopix.inria.fr>
--* To: ax-bugs@nag.co.uk
--* Subject: [3] extend not working properly

--@ Fixed  by: <Who> <Date>
--@ Tested by: <Name of new or existing file in test directory>
--@ Summary:   <Description of real problem and the fix>

-- Command line: axiomxl -q1 -ginterp earlybind.as
-- Version: 1.1.12p4
-- Original bug file name: earlybind.as

--------------------------- earlybind.as ----------------------------
--
-- foo() is defined by extension properly, but bar() remains bound
-- to the earlier definition of foo(). This does not seem to be
-- related to the optimizer (happens at -q1).
--
--
-- % axiomxl -ginterp -q1 earlybind.as 
-- foo()$Foo = 0
-- bar(1)$Foo = #0 140463328 in <foo> at unit [earlybind]
-- #1 d44 in <bar> at unit [earlybind]
-- #2 13a17 in <lazyGetter> at unit [runtime]
-- #3 a20 in <earlybind> at unit [earlybind]
-- ...
-- Unhandled Exception: RuntimeError(??)
-- User error: Reached a "never"
-- 

#include "axllib"

macro I == SingleInteger;

%: BasicType with {
	foo: () -> %;
	bar: I -> %;
	baz: I -> %;
} == I add {
	foo():Foo == never;             -- to be extended
	bar(n:I):% == foo();          -- bound too early to never!
	baz(n:I):% == n pretend %;
}

extend Foo: with {} == add { foo():% == { import from I; baz 0 } }

import from Foo, I;

print << "foo()$Foo = " << foo() << newline;
print << "bar(1)$Foo = " << bar 1 << newline;

