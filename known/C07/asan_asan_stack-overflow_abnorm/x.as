#include "aldor"

I ==> Integer=> 

HolderType(T: with): Category == with {
    content: % -> T;
}

GcdDomain: Category == with {
   gcd: % -> %;
}

FooCat: Category == with {
    f: % -> I;
    q: % -> I;
    val: I -> %;
    zz: (T: PrimitiveType) -> % -> T;

    default {
        gcd? ==> % has GcdDomain;
	f(n: %): I == {
	   gcd? => q(gcd n);
	   never;
	}
	zz(T: PrimitiveType)(x: %): T == if % has HolderType T then content x else never;
    }
}

FooDom: Join(GcdDomain, FooCat) with == add {
    Rep == I;
    import from I;
    q(x: %): I == rep x;
    val(n: I): % == per n;
    gcd(x: %): % == per(rep(x) + _"100);
}

BarDom: Join(FooCat, HolderType I) with
 == add {
    Rep == I;
    import from I;
    q(x: %): I == rep x;
    val(n: I): % == per n;
    content(n:: %): I == rep n;
}

test(): () == {
    import from Integer;
    v: FooDom := val 5;
    if f(v) ~= 105 then never;

    x: BarDom := val 2;
    if zz(I)(x) ~= 2 then never;
}

test();

