--* From postmaster%watson.vnet.ibm.com@yktvmv.watson.ibm.com  Wed Nov 16 10:05:18 1994
--* Received: from yktvmv-ob.watson.ibm.com by watson.ibm.com (AIX 3.2/UCB 5.64/930311)
--*           id AA19953; Wed, 16 Nov 1994 10:05:18 -0500
--* Received: from watson.vnet.ibm.com by yktvmv.watson.ibm.com (IBM VM SMTP V2R3)
--*    with BSMTP id 9917; Wed, 16 Nov 94 10:05:24 EST
--* Received: from YKTVMV by watson.vnet.ibm.com with "VAGENT.V1.0"
--*           id <A.BRONSTEI.NOTE.YKTVMV.4503.Nov.16.10:05:23.-0500>
--*           for asbugs@watson; Wed, 16 Nov 94 10:05:24 -0500
--* Received: from inf.ethz.ch by watson.ibm.com (IBM VM SMTP V2R3) with TCP;
--*    Wed, 16 Nov 94 10:05:22 EST
--* Received: from ru7.inf.ethz.ch (bronstei@ru7.inf.ethz.ch [129.132.12.16]) by inf.ethz.ch (8.6.9/8.6.9) with ESMTP id QAA18780 for <asbugs@watson.ibm.com>; Wed, 16 Nov 1994 16:05:14 +0100
--* From: Manuel Bronstein <bronstei@inf.ethz.ch>
--* Received: (bronstei@localhost) by ru7.inf.ethz.ch (8.6.8/8.6.6) id QAA19014 for asbugs@watson.ibm.com; Wed, 16 Nov 1994 16:05:13 +0100
--* Date: Wed, 16 Nov 1994 16:05:13 +0100
--* Message-Id: <199411161505.QAA19014@ru7.inf.ethz.ch>
--* To: asbugs@watson.ibm.com
--* Subject: [7] Pretend required where it shouldn't be

--@ Fixed  by: <Who> <Date>
--@ Tested by: <Name of new or existing file in test directory>
--@ Summary:   <Description of real problem and the fix>

-- Command line: asharp -M2 cycle.as
-- Version: 0.37.0
-- Original bug file name: cycle.as

------------------------------- cycle.as ----------------------------------
-- When compiling MyRec, List(%) is not accepted where List(MyRec) is wanted:
--
-- % asharp -M2 cycle.as
-- "cycle.as", line 40:
--         bar(r:%):Z              == bar(rep(r).val)$tyype(r);
-- .............................................^
-- [L29 C46] #1 (Error) Argument 1 of `bar$tyype(r)' did not match any possible
-- parameter type.
--     The rejected type is val: List(%).
--     Expected type List(MyRec).
--

#include "axllib"

macro Z	== SingleInteger;

MyCat: Category == with {
	foo: List MyRec -> Z;
	bar: List MyRec -> Z;
MyCat }

MyType: MyCat == add {
	foo(l:List MyRec):Z == #l;
	bar(l:List MyRec):Z == #l;
}

MyRec: with {
	foo: % -> Z;
	bar: % -> Z;
} == add {
	macro Rep == Record(typ:MyCat, val:List %);

	import from Rep;

	tyype(r:%):MyCat	== rep(r).typ;

-- foo compiles, but not bar, so the pretend is currently necessary:
	foo(r:%):Z		== foo(rep(r).val pretend List MyRec)$tyype(r);
	bar(r:%):Z		== bar(rep(r).val)$tyype(r);
}
