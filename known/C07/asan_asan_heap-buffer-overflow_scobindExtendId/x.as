-- Copyright (c) 1990-2007 Aldor Software Organization Ltd (Aldor.org).
--> testrun  -O -l axllib
--> testcomp -O
-- Testing sundry type combinations.
-- major type kinds are builtins (Records, Unions) and user-defined.
-- Enumerations should be covered a little more completely...

#include "axllib"

extend (): List 