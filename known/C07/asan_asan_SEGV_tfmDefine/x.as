#include "aldor"

Something : with {} == add {
    Rep == Record== (fullyDeleted:Boolean==false) ;
}
