--* From postmaster%watson.vnet.ibm.com@yktvmv.watson.ibm.com  Tue Aug 23 10:38:43 1994
--* Received: from yktvmv-ob.watson.ibm.com by watson.ibm.com (AIX 3.2/UCB 5.64/930311)
--*           id AA18964; Tue, 23 Aug 1994 10:38:43 -0400
--* Received: from watson.vnet.ibm.com by yktvmv.watson.ibm.com (IBM VM SMTP V2R3)
--*    with BSMTP id 7335; Tue, 23 Aug 94 10:38:46 EDT
--* Received: from YKTVMV by watson.vnet.ibm.com with "VAGENT.V1.0"
--*           id <A.TEKE.NOTE.YKTVMV.9935.Aug.23.10:38:44.-0400>
--*           for asbugs@watson; Tue, 23 Aug 94 10:38:45 -0400
--* Received: from piger.matematik.su.se by watson.ibm.com (IBM VM SMTP V2R3)
--*    with TCP; Tue, 23 Aug 94 10:38:44 EDT
--* Received: by piger.matematik.su.se (AIX 3.2/UCB 5.64/4.03)
--*           id AA10134; Tue, 23 Aug 1994 16:22:48 -0500
--* Date: Tue, 23 Aug 1994 16:22:48 -0500
--* From: teke@piger.matematik.su.se (Torsten Ekedahl)
--* Message-Id: <9408232122.AA10134@piger.matematik.su.se>
--* To: asbugs@watson.ibm.com
--* Subject: [5] Signature not conditionally added.

--@ Fixed  by: <Who> <Date>
--@ Tested by: <Name of new or existing file in test directory>
--@ Summary:   <Description of real problem and the fix>


-- Command line: none
-- Version: 0.36.5
-- Original bug file name: hest.as

--+ A signature is not added in the yes-branch of a query for a signature.
--+
#include "axllib"


hh ==
 addadd {
   rr : String :=
     if % has with { name : String } then name; else "hh";
};




