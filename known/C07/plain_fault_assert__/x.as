--> testrun -O -l axllib
--> testrun -l axllib
--> testcomp
--* Received: from red.nag.co.uk by nags2.nag.co.uk (4.1/UK-2.1)
--* 	id AA00918; Fri, 13 Sep 96 14:19:42 BST
--* Received: from frisco.nag.co.uk by red.nag.co.uk via SMTP (920330.SGI/920502.SGI)
--* 	for ax-bugs@nag.co.uk id AA08866; Fri, 13 Sep 96 14:12:45 +0100
--* From: peterb@red.nag.co.uk (Peter Broadbery)
--* Date: Fri, 13 Sep 1996 14:12:53 +0100
--* Message-Id: <199609131312.OAA02313@frisco>
--* Received: by frisco (SMI-8.6) id OAA02313; Fri, 13 Sep 1996 14:12:53 +0100
--* To: ax-bugs%nag.co.uk@red.nag.co.uk
--* Subject: [2] Substitution ****s up

--@ Fixed  by: <Who> <Date>
--@ Tested by: <Name of new or existing file in test directory>
--@ Summary:   <Description of real problem and the fix>

-- Command line: axiomxl -ginterp x2.as
-- Version: 1.1.7
-- Original bug file name: x2.as

#include "axllib"

NNI	==>NonNegativeInteger;
BSI	==>BasicSimpleIterations;
SI	==>SingleInteger; 



+++	BasicAggregate serves to model any data structure 
+++	aggregate, designating any collection of objects, with heterogenous 
+++	or homogeneous members, with a finite or infinite number of members, 
+++	explicitly or implicitly represented. An aggregate can in principle
+++	represent everything from a string of characters to abstract sets such
+++	as "the set of x satisfying relation r(x)". An attribute finiteAggregate 
+++	is used to assert that a domain element contains a finite number of 
+++	objects.
+++	Date Created: 1995
+++	Keywords: type, aggregate, finite
define BasicAggregate(S: BasicType): Category == Conditional with {
	export from S;
	eq?:		(%, %) -> Boolean;
		++ eq?(u,v) tests if u and v are the same object.
	copy:		% -> %;
		++ copy(u) returns a top-level (non recursive) copy of u.
	empty:		() -> %;
		++ empty()$D creates an aggregate of type D with no elements.
		++ Axioms: # empty() = 0, empty? empty() = true.
		++ Note: empty() is allowed to produce an error if the domain 
		++ does not support the empty aggregate.
}

+++	BasicHomogeneousAggregate is an aggregate of elements all of the
+++	same type. In the current system, all aggregates are homogeneous.
+++	Two attributes characterize classes of aggregates.
+++	Aggregates from domains with attribute finiteAggregate have a 
+++	finite number of members. Those with attribute shallowlyMutable 
+++	allow an element to be modified or updated without changing its overall 
+++	value.
define BasicHomogeneousAggregate(S:BasicType): Category == 
	BasicAggregate(S) with {
	generator: 	% -> Generator S;
		++ Generic traversal of a homogeneous aggregate.
default {
	(x:%) = (y:%):Boolean == {
		-- use the eq? test
		eq?(x,y) => true;
		-- use the values from the Generator 
		import from Generator S;
		gx:=generator x;
		gy:=generator y;
		repeat { 
			step! gx;
			step! gy;
			(empty? gx and empty? gy) => return true;
			(empty? gx and not empty? gy) or
				(empty? gy and not empty? gx) => return false;
			value gx ~= value gy => return false;
			}	
		}
	}
}




+++	A bag aggregate is an aggregate for which one can insert and extract 
+++	objects, and where the order in which objects are inserted determines 
+++	the order of extraction.
+++	Examples of bags are stacks, queues, and dequeues.
define BasicBagAggregate(S:BasicType): Category == 
	BasicHomogeneousAggregate S with {
	bag: Generator Generator Generator Generator Generator Generator Generator Generator Generator Generator Generator Generator Generator Generator Generator Generator Generator Generator Generator Generator Generator Generator Generator Generator Generator Generator Generator Generator Generator Generator Generator Generator Generator Generator Generator Generator Generator Generator Generator Generator Generator Generator Generator Generator Generator Generator Generator Generator Generator Generator  S -> %;
		++ bag(g) creates a bag by inserting each element in g.
	extract!: % -> S;
		++ extract!(u) destructively removes a (random) item 
		++ from bag u.
	insert!: (S,%) -> %;
		++ insert!(x,u) inserts item x into bag u.
	inspect: % -> S;
		++ inspect(u) returns an (random) element from a bag.
default {

	bag(l:Generator S):% == {
		u:=empty();
		for s in l repeat u:=insert!(s,u);
		u
	}

	inspect(u:%):S == {
		import from Generator S;
		g:=generator u;
		step! g;
		empty? g => error "inspect(u): u is empty";
		value g;
		u pretend S;
		}
	}

}


Foo: BasicHomogeneousAggregate Integer with {
	zzz: Integer -> %;
} == add {
	Rep ==> Integer;
	import from Rep;
	test(x: %): Boolean == rep(x) = 1;
	empty(): % == per 0;
	eq?(a: %, b: %): Boolean == rep(a) = rep(b);
	copy(a: %): % == a;
	generator(x: %): Generator Integer == generate yield rep(x);
	(<<)(t: TextWriter, b:%): TextWriter == t;
	sample: % == per 0;

	zzz(x: Integer): % == per x;
}

t(): () == {
	import from Foo;
	print << (zzz 2 = zzz 3) << newline;
}

t();

