-- Copyright (c) 1990-2007 Aldor Software Organization Ltd (Aldor.org).
--> testcomp

#include "axllib"

macro {
	SetCategory		== BasicType;

	I			== Integer;
	NNI			== NonNegativeInteger;
	PI			== PositiveInteger;

	NonNegativeInteger	== XNonNegativeInteger;
	PositiveInteger		== XPositiveInteger;

	SemiGroup		== XSemiGroup;
	Monoid			== XMonoid;
	Group			== XGroup;
	AbelianSemiGroup	== XAbelianSemiGroup;
	AbelianMonoid		== XAbelianMonoid;
}


NonNegativeInteger : Join(Monoid, AbelianMonoid) with {
	coerce:		% -> I;
}
== Integer add {
	(n: NNI) * (x: %% ) : % == error "n * x";
	(x: %) ^ (n: NNI) : % == error "x ^ n";
	coerce (x: %) : I == x pretend I;
}

PositiveInteger : Join(SemiGroup, AbelianSemiGroup) with {
	coerce:		% -> NNI;
}
== Integer add {
	(n: PI) * (x: %) : % == error "n * x";
	(x: %) ^ (n: PI) : % == error "x ^ n";
	coerce (x: %) : NNI == x pretend NNI;
}




SemiGroup: Category == SetCategory with {
	*:		(%, %) -> %;
	^:		(%, PI) -> %;
}

Monoid: Category == SemiGroup with {
	1:		%;
	^:		(%, NNI) -> %;

	default {
		(x: %) ^ (n: PI) : % == x ^ n::NNI;
	}
}

Group: Category == Monoid with {
	inv:		% -> %;
	/:		(%, %) -> %;
	^:		(%, I) -> %;

	default {
		(x: %) / (y: %) : % == x * inv y;
		(x: %) ^ (n: NNI) : % == x ^ n::I;
	}
}

AbelianSemiGroup: Category == SetCategory with {
	+:		(%, %) -> %;
	*:		(PI, %) -> %;
}

AbelianMonoid: Category == AbelianSemiGroup with {
	0:		%;
	*:		(NNI, %) -> %;

	default {
		(n: PI) * (x: %) : % == n::NNI * x;
	}
}
