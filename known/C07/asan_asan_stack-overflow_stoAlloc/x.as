-- Copyright (c) 1990-2007 Aldor Software Organization Ltd (Aldor.org).
--> testint -Mno-ALDOR_W_GenDomFunNotConst
--> testcomp -Mno-ALDOR_W_GenDomFunNotConst
--> testrun -l axllib -Mno-ALDOR_W_GenDomFunNotConst
#pile

#include "axllib"

Foo(n: Integer): IntegerNumberSystem ==
	Integer

foo(n: Integer): () ==
	 a: Foo(n)
	a := 1
	a := a+1
	print<<a<<newline

import from Integer

foo(3)
