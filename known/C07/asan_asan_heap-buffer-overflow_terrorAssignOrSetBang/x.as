-- Copyright (c) 1990-2007 Aldor Software Organization Ltd (Aldor.org).
--> testgen f
-------------------------------------------------------------------
-- Check for the if/cross/multi/return bug. Prior to version 1.1.12
-- the compiler would segfault when compiling buggedCM and buggedMM
--
-- The problem is that we are embedding multis into cross products
-- and we have to make sure that this actually happens and that we
-- don't repeat the embedding. For example, in buggedMM we embed
-- the value of the else branch Multi->Cross so we must not attempt
-- to embed the whole if statement as well. Seems obvious but ...
-------------------------------------------------------------------

#include "axllib"

SI ==> SingleInteger;

-------------------------------------------------------------------

buggedCC(flag:Boolean):Cross(SI, SI) ==
{
   import from SI;

   r:Cross(SI, SI) := (4, 8);
   s:Cross(SI, SI) := (2, 3);

   if (flag) then
      r;
   else
      s;
}

-------------------------------------------------------------------

buggedCM(flag:Boolean):Cross(SI, SI) ==
{
   import from SI;

   r:Cross(SI, SI) := (4, 8);
   s:Cross(SI, SI) := (2, 3);

   if (flag) then
      r;
   else
      (2, 3);
}

-------------------------------------------------------------------

buggedMC(flag:Boolean):Cross(SI, SI) ==
{
   import from SI;

   r:Cross(SI, SI) := (4, 8);
   s:Cross(SI, SI) := (2, 3);

   if (flag) then
      (4, 8);
   else
      s;
}

-------------------------------------------------------------------

buggedMM(flag:Boolean):Cross(SI, SI) ==
{
   import from SI;

   r:Cross(SI, SI) := (4, 8);
   s:Cross(SI, SI) := (2, 3);

   if (flag) then
      (4, 8);
   else
      (2, 3);
}

-------------------------------------------------------------------

pprint(p:Cross(SISI, SI), q:Cross(SI, SI)):() ==
{
   local fst, snd:SI;

   (fst, snd) := p;
   print << "(" << fst << ", " << snd << ")" << " ==> ";
   (fst, snd) := q;
   print << "(" << fst << ", " << snd << ")" << newline;
}

-------------------------------------------------------------------

main():() ==
{
   pprint(buggedCC(true), buggedCC(false));
   pprint(buggedCM(true), buggedCM(false));
   pprint(buggedMC(true), buggedMC(false));
   pprint(buggedMM(true), buggedMM(false));
}

-------------------------------------------------------------------

main();

-------------------------------------------------------------------
