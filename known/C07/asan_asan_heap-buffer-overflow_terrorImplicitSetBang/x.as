-- Copyright (c) 1990-2007 Aldor Software Organization Ltd (Aldor.org).
--> testcomp -O
--> testgen l -O
--> testgen c -O
--> testrun -O -l axllib

#pile
#include "axllib.as"

macro 
    SI       == SingleInteger
    F        == DoubleFloat
    CF       == Complex F
    Infinity == 0

import from CF
inline from CF

maxIters: SI == 100

drawMand(minR:F, maxR:F, numR:SI, minI:F, maxI:F, numI:SI): SI ==

  mandel(c: CF): SI ==
    z:  CF := 0
    nc: SI := 0

    for n in 1..maxIters while norm z < 4.0 repeat
        z  := z*z + c
	nc := n
    if nc = maxIters then nc := Infinity
    nc

  sum  SI := 0

  for i in step(numI)(minI, maxI) repeat
    for r in step(numR)(minR, maxR) repeat
	sum := sum + mandel complex(r,i)
      -- drawPoint(rc, ic, mandel complex(r,i))
    -- endRow()

  print<<"The sum is "<<sum<<newline
  numR * numI

(
  drawPoint(x: SI, y: SI, n: SI): () ==
    import from String
    n = Infinity => print << "   "
    print<<(if n < 10 then "  " else " ")<<n

  endRow(): () == print<<newline

  import from F

  print<<drawMand(-2.0, -1.0, 600, -0.5, 0.5, 600) << newline
)
