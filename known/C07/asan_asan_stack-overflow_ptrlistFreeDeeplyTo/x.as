--> testint
--> testrun -Q2 -laxllib
--> testrun -Q1 -laxllib
--@ Bug Number:  bug1028.as 
--@ Fixed  by:  pab   
--@ Tested by:  opt3.as 
--@ Summary:    Fixed buggette in dead assignment elimination with mult. values 

-- Command line: axiomxl -Q2 optbug.as
-- Version: 1.1.3
-- Original bug file name: optbug.as

------------------------   optbug.as   -----------------------
--
-- This is a small example of our major problem with the optimizer
--
-- % axiomxl -Fx -Q1 optbug.as
-- % optbug
-- % axiomxl -Fx -Q2 optbug.as
-- % optbug
-- Bus error
--
-- Occurs in many places, seems to be related to defaults returning Tuples.
--

#include "axllib.as"

macro {
	SI == SingleInteger;
	ARR == PrimitiveArray SI;
}

MatCategory0(R: Ring): Category == BasicType with {
	cols:		% -> SI;
	rows:		% -> SI;
	dimensions:     % -> (SI,SI);
	if R has R then rank: % -> SI;
}

LinearAlgebra(R:EuclideanDomain,P:MatCategory0 R):with { rank:P->SI } == add {
	rank (a:P) : SI == {
		import from ARR;
		(n,m)   := dimensions a;
		(r,d,c) := (0, 0, new 1);
		r;
	}
}

MatCategory(R: Ring): Category == MatCategory0 R with {
    if R has EuclideanDomain then {
         macro LA == LinearAlgebra(R pretend EuclideanDomain,  %);
         default rank(a:%):SI == rank(a)$LA;
    }
}

Matrix(R: Ring): MatCategory R with { new: (SI,SI,R) -> % } == add {
	DT  ==> PrimitiveArray R;
	Rep ==> Record(nbrows:SI,nbcolumns:SI,data:DT);

	import from EuclideanDomain, SI, ARR, Rep;

	if R has EuclideanDomain then {
          macro LA == LinearAlgebra(R pretend EuclideanDomain,  %);
          rank(a:%):SI == rank(a)$LA;
	}

	sample:% == new(2,2,0);
	new (n:SI,m:SI,e:R) : % == { per [n,m,new(n*m,e)]; }
	rows    (a:%) : SI == rep(a).nbrows;
	cols (a:%) : SI == rep(a).nbcolumns;
	entries (a:%) : DT == rep(a).data;
	(port: TextWriter) << (a:%) : TextWriter == port;
	dimensions (a:%) : (SI,SI)    == (rows(a),cols(a));
	(a:%) = (b:%) : Boolean == false;
}

boom():SI == {
	import from Integer, Matrix Integer;
	rank new(2, 2, 0);
}

boom();

