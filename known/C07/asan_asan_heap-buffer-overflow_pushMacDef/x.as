-- Copyright (c) 1990-2007 Aldor Software Organization Ltd (Aldor.org).
--> testphase macex
--> testerrs
#pile

macro x  == u
macro (xx == uu; yy == vv)
macro
	a == a1 - a2
	b == b1 ; c == c1
	d(e,f)(g,h) == (e+f)*(g+h)
	a + b == c(a,b)
	a / b == d(a,b)

a + b      	-- c1(a1-a2, b1)
d(1,2)(3,4)	-- c1(1,2)   * c1(3,4)
(xx/yy)(aa,bb)	-- c1(uu,vv) * c1(aa,bb)

macro f(g,a1,a2) == g(a1,a2) + g(a2,a1)

f(+,xx,yy)
f((macro (a,b) +-> a), xx, yy)

(macro (aaa,bbb)(16rZZ)(vvv) +-> [aaa,bbb,uuu,vvv])(3,4)(5)(6)

#if TestErrorsToo
macro
	aa : bb == cc
	ff(a: T) == a + b
	gg(a: T): R == a + b

f 3
ff 3
#endif
