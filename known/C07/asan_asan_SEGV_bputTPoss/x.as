-- Copyright (c) 1990-2007 Aldor Software Organization Ltd (Aldor.org).
--> testcomp
--> testrun -Q3 -l axllib

#include "axllib"

Dense ==> Join(DenseStorageCategory, BasicType);


make(T:Dense, x1:T, x2:T):() ==
{
   local rec:RawRecord(lo:T, hi:T);
   rec := Join [_x1, x2];

   print << "rec.lo = " << (rec.lo) << newline;
   print << "rec.hi = " << (rec.hi) << newline;
}


import from SingleInteger;
make(SingleInteger, 42, 21);

import from DoubleFloat;
make(DoubleFloat, 4.2, 2.1);
