
-- Original author: Saul Youssef
--> testint

#include "axllib"
#pile

define FooCategory(Object:Type,Cat:Category):Category == with
    Foo16rZZ Object -> Cat 
             f#pile  % -> %
	     default
	         f(x:%):% == error " "

