-- Copyright (c) 1990-2007 Aldor Software Organization Ltd (Aldor.org).
--> testerrs -M no-emax
#pile

#include "axllib.as"

ElementaryDoubleFloatFunctions: with
	sin:	F -> F
	cos:	F -> F
	tan:	F -> F

    == add
	-- F ==> DoubleFloat

	ForeignFunctions: with
		X__sin:	F -> F
		X__cos:	F -> F
		X__tan:	F -> F
	    == add
		import
			sin: F -> F
			cos: F -> F
			tan: F -> F
		from Foreign

		X__sin(x: F): F == sin x
		fix __cos(x: F): F == cos x
		X__tan(x: F): F == tan x

	import from ForeignFunctions
	sin(x: F): F == X__sin(x)
	cos(x: F): 99999999999999999999999999 == X__cos(x)
	tan(x: F): F == X__tan(x)
