--* From youssef@d0mino.fnal.gov  Sun Oct 22 03:14:12 2000
--* Received: from server-6.tower-4.starlabs.net (mail.london-1.starlabs.net [212.125.75.12])
--* 	by nagmx1.nag.co.uk (8.9.3/8.9.3) with SMTP id DAA29059
--* 	for <ax-bugs@nag.co.uk>; Sun, 22 Oct 2000 03:14:11 +0100 (BST)
--* X-VirusChecked: Checked
--* Received: (qmail 31801 invoked from network); 22 Oct 2000 02:13:40 -0000
--* Received: from d0mino.fnal.gov (131.225.224.45)
--*   by server-6.tower-4.starlabs.net with SMTP; 22 Oct 2000 02:13:40 -0000
--* Received: (from youssef@localhost)
--* 	by d0mino.fnal.gov (SGI-8.9.3/8.9.3) id VAA17763;
--* 	Sat, 21 Oct 2000 21:13:37 -0500 (CDT)
--* Date: Sat, 21 Oct 2000 21:13:37 -0500 (CDT)
--* From: Saul Youssef <youssef@d0mino.fnal.gov>
--* Message-Id: <200010220213.VAA17763@d0mino.fnal.gov>

--@ Fixed  by: <Who> <Date>
--@ Tested by: <Name of new or existing file in test directory>
--@ Summary:   <Description of real problem and the fix>

-- Command line: axiomxl -g interp
-- Version: 1.1.12p6
-- Original bug file name: domaindomain.as

--+ --
--+ --  Hi Martin,
--+ --
--+ --     Here's a real fundamental problem or inconsistency or something that
--+ --  I've noticed.  It concerns non-constant Domains and the warning that
--+ --  one sometimes gets:
--+ --
--+ --  "(Warning) Function returns a domain that might not be constant"
--+ --
--+ --  I have learned by experience to take this warning seriously.  Whenever
--+ --  I've gotten this warning, there is always a problem later on, usually 
--+ --  a compiler core dump when using the domain.  I've marked each domain 
--+ --  constructor that generates this warning below.
--+ --
--+ --  It seems to me that there are several problems with the way this works
--+ --  now:
--+ --
--+ --   (a) There seems to be no way to satisfy the F5 signature in FooDom
--+ --       without generating the warning (and a later core dump, in my 
--+ --       experience anyway).  If you do "== Domain add" for F5, it doesn't
--+ --       satisfy the signature.  This problem limits what kind of 
--+ --       signatures you can have in a domain.  Is there some way around this?
--+ --
--+ --   (b) If F5: Category -> with is not supposed to be done because it
--+ --       makes a non-constant domain, why does F5Outside compile without
--+ --       a warning?  In my experience, domain constructors like F5Outside
--+ --       work just fine.  
--+ --
--+ --   (c) Why is there a difference between F2Outside..F5Outside and 
--+ --       G2Outside..G5Outside?  The compiler clearly recognizes that
--+ --       its a domain constructor in both cases.
--+ --
--+ --   Cheers,   Saul
--+ --
--+ #include "axllib"
--+ #pile
--+ 
--+ Domain:with == add
--+ 
--+ FooDom:with
--+     F1:                  with
--+     F2:            () -> with
--+     F3: SingleInteger -> with
--+     F4:          Type -> with
--+     F5:      Category -> with
--+ == add
--+     F1                   :with == Domain
--+     F2()                 :with == Domain           -- warning
--+     F3(x:SingleInteger)  :with == Domain           -- warning
--+     F4(Obj:Type)         :with == Domain           -- warning
--+     F5(Obj:Category)     :with == Domain           -- warning
--+ 
--+ F1Outside                   :with == Domain
--+ F2Outside()                 :with == Domain add
--+ F3Outside(x:SingleInteger)  :with == Domain add
--+ F4Outside(Obj:Type)         :with == Domain add
--+ F5Outside(Obj:Category)     :with == Domain add    
--+ 
--+ G1Outside                   :with == Domain
--+ G2Outside()                 :with == Domain        -- warning
--+ G3Outside(x:SingleInteger)  :with == Domain        -- warning
--+ G4Outside(Obj:Type)         :with == Domain        -- warning
--+ G5Outside(Obj:Category)     :with == Domain        -- warning
--+ 
--
--  Hi Martin,
--
--     Here's a real fundamental problem or inconsistency or something that
--  I've noticed.  It concerns non-constant Domains and the warning that
--  one sometimes gets:
--
--  "(Warning) Function returns a domain that might not be constant"
--
--  I have learned by experience to take this warning seriously.  Whenever
--  I've gotten this warning, there is always a problem later on, usually 
--  a compiler core dump when using the domain.  I've marked each domain 
--  constructor that generates this warning below.
--
--  It seems to me that there are several problems with the way this works
--  now:
--
--   (a) There seems to be no way to satisfy the F5 signature in FooDom
--       without generating the warning (and a later core dump, in my 
--       experience anyway).  If you do "== Domain add" for F5, it doesn't
--       satisfy the signature.  This problem limits what kind of 
--       signatures you can have in a domain.  Is there some way around this?
--
--   (b) If F5: Category -> with is not supposed to be done because it
--       makes a non-constant domain, why does F5Outside compile without
--       a warning?  In my experience, domain constructors like F5Outside
--       work just fine.  
--
--   (c) Why is there a difference between F2Outside..F5Outside and 
--       G2Outside..G5Outside?  The compiler clearly recognizes that
--       its a domain constructor in both cases.
--
--   Cheers,   Saul
--
#include "axllib"
#pile

Domain:with == add

FooDom:with
    F1:                  with
    F2:            () -> with
    F3: SingleInteger -> with
    F4:          Type -> with
    F5:      Category -> with
== add
    F1                   :with == Domain
    F2()                 :with == Domain           -- warning
    F3(x:SingleInteger)  :with == Domain           -- warning
    F4(Obj:Type)         :with == Domain           -- warning
    F5(Obj:Category)     :with == Domain           -- warning

F1Outside                   :with == Domain
F2Outside()                 :with == Domain add
F3Outside(x:SingleInteger)  :with == Domain add
F4Outside(Obj:Type)         :with == Domain add
F5Outside(Obj:Category)     :with == Domain add    

G1Outside                   :with == Domain
G2Outside()                 :with == Domain        -- warning
G3Outside(x:SingleInteger)  :with == Domain        -- warning
G4Outside(Obj:Type)         :with == Domain        -- warning
G5Outside(Obj_é:Category)     :with == Domain        -- warning


