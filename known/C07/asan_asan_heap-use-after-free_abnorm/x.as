--* From postmaster%watson.vnet.ibm.com@yktvmv.watson.ibm.com  Thu May  4 12:29:23 1995
--* Received: from yktvmv-ob.watson.ibm.com by watson.ibm.com (AIX 3.2/UCB 5.64/930311)
--*           id AA22367; Thu, 4 May 1995 12:29:23 -0400
--* Received: from watson.vnet.ibm.com by yktvmv.watson.ibm.com (IBM VM SMTP V2R3)
--*    with BSMTP id 8415; Thu, 04 May 95 12:29:23 EDT
--* Received: from YKTVMV by watson.vnet.ibm.com with "VAGENT.V1.0"
--*           id <A.BRONSTEI.NOTE.YKTVMV.4274.May.04.12:29:19.-0400>
--*           for asbugs@watson; Thu, 04 May 95 12:29:22 -0400
--* Received: from inf.ethz.ch by watson.ibm.com (IBM VM SMTP V2R3) with TCP;
--*    Thu, 04 May 95 12:29:19 EDT
--* Received: from mendel.inf.ethz.ch (mendel.inf.ethz.ch [129.132.12.20]) by inf.ethz.ch (8.6.10/8.6.10) with ESMTP id SAA24216 for <asbugs@watson.ibm.com>; Thu, 4 May 1995 18:29:15 +0200
--* From: Manuel Bronstein <bronstei@inf.ethz.ch>
--* Received: (bronstei@localhost) by mendel.inf.ethz.ch (8.6.10/8.6.10) id SAA00338 for asbugs@watson.ibm.com; Thu, 4 May 1995 18:24:51 +0200
--* Date: Thu, 4 May 1995 18:24:51 +0200
--* Message-Id: <199505041624.SAA00338@mendel.inf.ethz.ch>
--* To: asbugs@watson.ibm.com
--* Subject: [1] Bus error on using BinaryPowering [binpow.as][1.1]

--@ Fixed  by: <Who> <Date>
--@ Tested by: <Name of new or existing file in test directory>
--@ Summary:   <Description of real problem and the fix>

----------------------------- binpow.as ----------------------------------
--
-- This is a worse instance of bug 928, since the workaround does not work:
-- % axiomxl -Fx binpow.as
-- % binpow
-- Bus error
--

#include "axllib.as"

macro Z == Integer;

FooCat(R:Ring):Category == Ring with {
	coerce: R -> %;
	times!: (%, %) -> %;
	default {
		-- the next line is supposed to be a workaround for bug 928
		prod(a:%, b:%):% == times!(a, b);

		(a:%)^(n:Z):% == {
			import from BinaryPowering(%, prod, Z);
			zero? n => 1;
			u:% := 1;
			macro (u, a, n);
		}
	}
}

Foo(R:Ring):FooCat R == R add {
	macro Rep == R;

	times!(a:%, b:%):% == a * b;
	coerce(a:R):% == per a;
}

import from Z, Foo Z;

x := 3::Foo Z;
x^2;

