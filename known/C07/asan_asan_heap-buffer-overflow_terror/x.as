-- Copyright (c) 1990-2007 Aldor Software Organization Ltd (Aldor.org).
#include "axllib.as"
#pile

--> testrun -O -l axllib
--> testcomp

-- tests generators used as first-class values

GEN ==> Generator X;

GeneratorOps(X: Type): with {
	map: (X -> X, GEN)-> GEN;
	filter: ( X->Boolean, GEN) -> GEN;
	concat: (GEN, GEN) -> GEN;
	combine: ( (X, X) -> X, GEN, GEN) -> GEN
}
== add {
	map(f: X->X, g: GEN): GEN ==
		generate for x in g repeat yield f x;

	filter(f: X->Boolean, g: GEN): GEN == {
		generate
			for x in g repeat
				if f x then yield x;
	}

	concat(g1: GEN, g2: GEN): GEN == {
		generate {
			for x in g1 repeat yield x;
			for x in g2 repeat yield x;
		}
	}
	
	combine(f: (X, X) -> X, g1: GEN, g2: GEN): GEN == {
		generate for x in g1
			 for y in g2 repeat 
				yield f(x, y);
	}

}

--- candidate for Daftest Program for Printing Prime Numbers Award

I    ==> SingleInteger
IGEN ==>  I
import from GeneratorOps I
import from Generator I

numFilter(n: I, G: IGEN): IGEN == filter( (m: I): Boolean +-> not zero? (m mod n), G);

sieve(G: IGEN): IGEN == {
	step! G;
	empty? G => { generate { } };
	next := value G;	
	concat (generate yield next,
		i for i in sieve numFilter(next, G))
}

T1(): () == for n in sieve generator(2..200) repeat
		print<<n<<newline;

T1();
