-- Copyright (c) 1990-2007 Aldor Software Organization Ltd (Aldor.org).
--> testcomp
--> testrun -Q inline-all -l axllib

#include "axllib.as"
#pile

BT : Category == with {
        <<: 	(TextWriter, %) -> TextWriter;	++ Basic output.
	<<:	% -> TextWriter -> TextWriter;	++ Basic output.

	default (<<)(x: %; )(p: TextWriter): TextWriter == p << x;
}

C0 : Category ==
  BT with
    f : % -> %
    coerce : SingleInteger -> %
    coerce : % -> SingleInteger

A(n : SingleInteger) : C0
    with
        coerce : 1. n -> %
  == add
    macro Rep == SingleInteger
    import from Rep, String
    f(a : %) : % == per (rep a + 3)
    coerce(n : SingleInteger) : % == per n
    coerce(a : %) : SingleInteger == rep a
    coerce(b : B n) : % == b :: SingleInteger :: %
    (p : TextWriter) << (x : %) : TextWriter == print("~a@A(~a)", p)(<<rep x, <<n)

B(n : SingleInteger) : C0 with
        coerce : A n -> %
  == add
    macro Rep == SingleInteger
    import from Rep, String, A n
    f(x : %) : % == f( x :: A n ) :: %
    coerce(n : SingleInteger) : % == per n
    coerce(b : %) : SingleInteger == rep b
    coerce(a : A(n)) : % == a :: SingleInteger :: %
    (p : TextWriter) << (x : %) : TextWriter == print("~a@B(~a)", p)(<<rep x, <<n)

import from String, SingleInteger, FormattedOutput

print."Begin test...~n"

local aa : A 17 == coerce 7
print."aa : A 17 == coerce 7 = ~a~n"(<<aa)

local fa : A 17 == f aa
print."fa : A 17 == f aa = ~a~n"(<<fa)

print."...End test.~n"
