-- Copyright (c) 1990-2007 Aldor Software Organization Ltd (Aldor.org).
--> testcomp -O
--> testrun -O -l axllib

------------------------------- int.as ----------------------------
--
-- Optimizing changes the value of 6/3:
--
-- % axiomxl -Q1 -Fx int.as
-- % int
-- 6 / 3 = 2
--
-- % axiomxl -Q2 -Fx int.as
-- % int
-- 6 / 3 = 6
--

#export  "axllib.as"

IntegerCategory: Category == IntegerNumberSystem with {
	exactQuotient: (%, %) -> Partial %;
	default {
		exactQuotient(x:%, y:%):Partial(%) == {
			(q, r) := divide(x, y);
			zero? r => [q];
			failed
		}
	}
};

extend Integer IntegerCategory == add {};

f() : () == {
	import from Integer, Partial Integer;

	print << "6 / 3 = " << retract exactQuotient(6, 3) << newline;
}

f();

