-- Copyright (c) 1990-2007 Aldor Software Organization Ltd (Aldor.org).
--> testerrs
#pile
--  This code fragment should generate the message
--  "Cannot recover from earlier syntax errors."

B ==> Boolean

Float(): Join(FloatingPointSystem, 
  CoercibleTo SmallFloat, onvertibleTo InputForm) with
   outputSpacing: N -> Void
      ++ outputSpacing(0) means no spaces are inserted.
   arbitraryPrecision
   arbitraryExponent
  == add

   rationalApproximation(f,d) == rationalApproximation(f,d,10)

   rationalApproximation(f,d,b) ==
      t: Integer
      nu := f.mantissa; ex := f.exponent
      if ex >= 0 then return ((nu*BASE**(ex::N))/1)
      de := BASE**((-ex)::N)
      if b < 2 then error "base must be > 1"
      tol := b**d
      s := nu; t := de
      _
p0,p1,q0,q1 : Integer
      p0 := 0; p1 := 1; q0 := 1; q1 := 0
      repeat
         (q,r) := divide(s, t)
         p2 := q*p1+p0
         q2 := q*q1+q0
         if r = 0 or tol*abs(nu*q2-de*p2) < de*abs(p2) then return (p2/q2)
         (p0,p1) := (p1,p2)
         (q0,q1) := (q1,q2)
         (s,t) := (t,r)

