--* From postmaster%watson.vnet.ibm.com@yktvmv.watson.ibm.com  Fri May  5 05:16:06 1995
--* Received: from yktvmv-ob.watson.ibm.com by watson.ibm.com (AIX 3.2/UCB 5.64/930311)
--*           id AA21429; Fri, 5 May 1995 05:16:06 -0400
--* Received: from watson.vnet.ibm.com by yktvmv.watson.ibm.com (IBM VM SMTP V2R3)
--*    with BSMTP id 0419; Fri, 05 May 95 05:16:05 EDT
--* Received: from YKTVMV by watson.vnet.ibm.com with "VAGENT.V1.0"
--*           id <A.BRONSTEI.NOTE.YKTVMV.0344.May.05.05:16:04.-0400>
--*           for asbugs@watson; Fri, 05 May 95 05:16:05 -0400
--* Received: from inf.ethz.ch by watson.ibm.com (IBM VM SMTP V2R3) with TCP;
--*    Fri, 05 May 95 05:16:04 EDT
--* Received: from mendel.inf.ethz.ch (mendel.inf.ethz.ch [129.132.12.20]) by inf.ethz.ch (8.6.10/8.6.10) with ESMTP id LAA10095 for <asbugs@watson.ibm.com>; Fri, 5 May 1995 11:15:40 +0200
--* From: Manuel Bronstein <bronstei@inf.ethz.ch>
--* Received: (bronstei@localhost) by mendel.inf.ethz.ch (8.6.10/8.6.10) id LAA18999 for asbugs@watson.ibm.com; Fri, 5 May 1995 11:11:16 +0200
--* Date: Fri, 5 May 1995 11:11:16 +0200
--* Message-Id: <199505050911.LAA18999@mendel.inf.ethz.ch>
--* To: asbugs@watson.ibm.com
--* Subject: [3] multiple meanings for same function [mean2.as][1.1]

--@ Fixed  by: <Who> <Date>
--@ Tested by: <Name of new or existing file in test directory>
--@ Summary:   <Description of real problem and the fix>

------------------------------- mean2.as ----------------------------------
--
-- % axiomxl -M2 mean2.as
-- "mean2.as", line 28:         ident(p:P):P == gcd(p,p);
--                      ........................^
-- [L16 C25] #1 (Error) There are 2 meanings for `gcd' in this context.
-- The possible types were:
--           gcd: (P, P) -> P from P
--           gcd: (P, P) -> P from P
--   The context requires an expression of type (P, P) -> P.
--

#include "axllib.as"

GcdDomain: Category == Ring with { gcd: (%, %) -> % };

Foo(Field:Ring):Category == with {
	foo: % -> %;
	if R has GcdDomain then GcdDomain;
	if R has R then {
-- COMPILES OK IF THE ORDER OF THOSE 2 LINES IS INVERTED!!!!
		EuclideanDomain;
		GcdDomain
	}
}

Bar(F:Field, P:Foo F): with { ident: P -> P } == add {
	ident(p:P):P == gcd(p,p);
}
