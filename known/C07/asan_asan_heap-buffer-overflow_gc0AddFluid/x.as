-- Copyright (c) 1990-2007 Aldor Software Organization Ltd (Aldor.org).
--- simple fluid tests

--> testcomp
--> testrun -l axllib
#pile

-- fluid restrictions: 
--   fluids must be consistently typed throughout a prog; 
--    all fluids called 'x' are the same variable.
--   a fluid must be assigned in a fluid stmt. before it is used,
--   or assigned to anywhere else.
--   fluids and locals and frees don't mix, and the error messages are 
--   misleading.

#include "axllib.as"

#assert true
{
#if true
T1(): () == {
	import from SingleInteger;
	 x: SingleInteger := 1;
	sub1(): () == { print << x<<newline; };
	sub2(): () == { fluid y: SingleInteger; print <<y<<newline; };

	sub3(): () == { fluid y:= 2; sub2(); sub1(); sub4() };
	sub4(): () == { fluid x:=3; fluid y:=4; sub1(); sub2(); };

	sub3();
}

T1();

#endif

#if true
--- Multiple value fluids
T2(): () == {
	fluid x: SingleInteger:=0;
	fluid y: String := "";
	sub1(): (SingleInteger, String) == { return (3, "hello")}
	(x, y) := sub1();
	print << x<<" "<<y<<newline;
	}
T2();

#endif
}
