-- Copyright (c) 1990-2007 Aldor Software Organization Ltd (Aldor.org).
--> testcomp
--> testrun -l axllib

#include "axllib"

Foo(S: AbelianMonoid): with {
	zero: () -> %;
	<<: (TextWriter, %) -> TextWriter;
}
== add {
	Rep ==> Record Record Record Record Record Record Record Record Record Record Record Record Record Record Record Record Record Record Record Record Record Record Record Record Record Record Record Record Record Record Record Record Record Record Record Record Record Record Record Record Record Record Record Record Record Record Record Record Record Record (x: S);
	import from Rep;

	zero(): % == per [0];

	(p: TextWriter) << (f: %) : TextWriter == p << rep(f).x;
}

import from Foo Integer;
print<<zero()<<newline;
