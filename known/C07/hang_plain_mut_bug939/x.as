--* From postmaster%watson.vnet.ibm.com@yktvmv.watson.ibm.com  Thu Jan  5 11:04:19 1995
--* Received: from yktvmv-ob.watson.ibm.com by watson.ibm.com (AIX 3.2/UCB 5.64/930311)
--*           id AA22427; Thu, 5 Jan 1995 11:04:19 -0500
--* Received: from watson.vnet.ibm.com by yktvmv.watson.ibm.com (IBM VM SMTP V2R3)
--*    with BSMTP id 1937; Thu, 05 Jan 95 11:04:16 EST
--* Received: from YKTVMV by watson.vnet.ibm.com with "VAGENT.V1.0"
--*           id <A.PETERB.NOTE.YKTVMV.3565.Jan.05.11:04:16.-0500>
--*           for asbugs@watson; Thu, 05 Jan 95 11:04:16 -0500
--* Received: from sun2.nsfnet-relay.ac.uk by watson.ibm.com (IBM VM SMTP V2R3)
--*    with TCP; Thu, 05 Jan 95 11:04:16 EST
--* Via: uk.co.iec; Thu, 5 Jan 1995 15:24:39 +0000
--* Received: from nldi16.nag.co.uk by nags2.nag.co.uk (4.1/UK-2.1) id AA02184;
--*           Thu, 5 Jan 95 15:26:03 GMT
--* From: Peter Broadbery <peterb@num-alg-grp.co.uk>
--* Date: Thu, 5 Jan 95 15:22:28 GMT
--* Message-Id: <554.9501051522@nldi16.nag.co.uk>
--* Received: by nldi16.nag.co.uk (920330.SGI/NAg-1.0) id AA00554;
--*           Thu, 5 Jan 95 15:22:28 GMT
--* To: asbugs@watson.ibm.com
--* Subject: Substitution problem....

--@ Fixed  by: <Who> <Date>
--@ Tested by: <Name of new or existing file in test directory>
--@ Summary:   <Description of real problem and the fix>


#include "axllib"

define C1(X: BasicType): Category == with { def: X -> Integer }


IOps: C1 Integer == add {
	def(x: Integer): Integer == x;
}

Wrap(X: BasicType, CC: C1 X): Join(C1 %, BasicType) with == add {

	Rep ==> Record Record Record Record Record Record Record Record Record Record Record Record Record Record Record Record Record Record Record Record Record Record Record Record Record Record Record Record Record Record Record Record Record Record Record Record Record Record Record Record Record Record Record Record Record Record Record Record Record Record (x: X);
	import from Rep, CC;

	sample: % == per [sample$X];

	(a: %) = (b: %): Boolean == rep a = rep b;
	(o: TextWriter) << (v: %): TextWriter == o << "[" << rep(v).x << "]";
	def(v: %): Integer == def(rep(v).x);
}


import from Integer;
import from IOps;
import from Wrap(Integer, IOps);
import from Wrap(Wrap(Integer, IOps), Wrap(Integer, IOps));

#if wannaSeeTheErrors
import from Wrap(Wrap(Integer, IOps), Wrap(Integer, IOps));
      ......................................^
[L5 C39] #1 (Error) Argument 2 of `Wrap' did )not match any possible parameter type.
    The rejected type is
                Join(C1(%), BasicType) with
                ....
    Expected type if (X).

#endif

