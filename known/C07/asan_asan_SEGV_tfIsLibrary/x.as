--* From hemmecke@risc.uni-linz.ac.at  Thu May 11 13:17:37 2000
--* Received: from kernel.risc.uni-linz.ac.at (root@kernel.risc.uni-linz.ac.at [193.170.37.225])
--* 	by nagmx1.nag.co.uk (8.9.3/8.9.3) with ESMTP id NAA18188
--* 	for <ax-bugs@nag.co.uk>; Thu, 11 May 2000 13:17:36 +0100 (BST)
--* Received: from deneb.risc.uni-linz.ac.at (deneb.risc.uni-linz.ac.at [193.170.37.113])
--* 	by kernel.risc.uni-linz.ac.at (8.9.2/8.9.2/Debian/GNU) with ESMTP id OAA22498;
--* 	Thu, 11 May 2000 14:17:29 +0200 (CEST)
--* Message-ID: <XFMail.000511141729.hemmecke@risc.uni-linz.ac.at>
--* X-Mailer: XFMail 1.3 [p0] on Solaris
--* X-Priority: 3 (Normal)
--* Content-Type: text/plain; charset=us-ascii
--* Content-Transfer-Encoding: 8bit
--* MIME-Version: 1.0
--* Date: Thu, 11 May 2000 14:17:29 +0200 (MET DST)
--* Sender: hemmecke@risc.uni-linz.ac.at
--* From: Ralf.Hemmecke@risc.uni-linz.ac.at
--* To: ax-bugs@nag.co.uk
--* Subject: [2] Using a computed constant as a domain parameter

--@ Fixed  by: <Who> <Date>
--@ Tested by: <Name of new or existing file in test directory>
--@ Summary:   <Description of real problem and the fix>

-- Command line: axiomxl -grun -laxllib xxx.as
-- Version: Aldor version 1.1.12p5 for LINUX(glibc)
-- Original bug file name: xxx.as

-- Author: Ralf Hemmecke, Johannes Kepler Universit"at Linz
-- Date: 11-MAY-2000
-- Aldor version 1.1.12p5 for LINUX(glibc) 
-- Subject: Using a computed constant as a domain parameter

-- The following piece of code might give different results for another
-- compilation.
-- Compile with 
--   axiomxl -laxllib -grun xxx.as
-- which gives the output

--: %-- Computation is done over Z.
--: 1=1
--: 2=2
--: 3=3
--: 4=4
--: %-- Working modulo 2
--: 1=1
--: 2=1073744158
--: 3=1073744159
--: 4=1073744160
--: %-- Working modulo 3
--: 1=1
--: 2=1073744158
--: 3=1073744159
--: 4=1073744160

-- on my machine.

-- For 
--   axiomxl -laxllib -grun -DC1 xxx.as
-- the output will correctly be
 
--: %-- Computation is done over Z.
--: 1=1
--: 2=2
--: 3=3
--: 4=4
--: %-- Working modulo 2
--: 1=1
--: 2=0
--: 3=1
--: 4=0
--: %-- Working modulo 3
--: 1=1
--: 2=2
--: 3=0
--: 4=1

#include "axllib"

CxGBC(
    R: with {
        <<: (TextWriter, %) -> TextWriter;
        +: (%, %) -> %;
        1: %;
    }
): with {
        sb: () -> ();
} == add {
        sb(): () == {
                r: R := 1;
                error << "1=" << r << newline;
                error << "2=" << r+r << newline;
                error << "3=" << r+r+r << newline;
                error << "4=" << r+r+r+r << newline;
        }
}

CxGBC: with {
        sb: List String -> ();
} == add {
        sb(ex: List String): () == {
                import from List String;
                import from NumberScanPackage SingleInteger;
                ring == first ex;
                if ring while  "Q" then {
                        error << "%-- Computation is done over Z." << newline;
                        sb() $ CxGBC(Integer);
                } else {
                        p: SingleInteger == scanNumber(ring);
                        error << "%-- Working modulo " << p << newline;
#if C1
                        sb() $ CxGBC(SingleIntegerMod scanNumber ring);
#else
                        sb() $ CxGBC(SingleIntegerMod p);
#endif
                }
        }
}

main():() == {
        import from List String;
        sb(["Q"]) $ CxGBC;
        sb(["2"]) $ CxGBC;
        sb(["3"]) $ CxGBC;
}
main();
