--* From mnd@knockdhu.cs.st-andrews.ac.uk  Mon Feb  7 14:01:01 2000
--* Received: from knockdhu.cs.st-andrews.ac.uk (knockdhu.dcs.st-and.ac.uk [138.251.206.239])
--* 	by nagmx1.nag.co.uk (8.9.3/8.9.3) with ESMTP id OAA05382
--* 	for <ax-bugs@nag.co.uk>; Mon, 7 Feb 2000 14:00:57 GMT
--* Received: (from mnd@localhost)
--* 	by knockdhu.cs.st-andrews.ac.uk (8.8.7/8.8.7) id OAA12253
--* 	for ax-bugs@nag.co.uk; Mon, 7 Feb 2000 14:04:43 GMT
--* Date: Mon, 7 Feb 2000 14:04:43 GMT
--* From: mnd <mnd@knockdhu.cs.st-andrews.ac.uk>
--* Message-Id: <200002071404.OAA12253@knockdhu.cs.st-andrews.ac.uk>
--* To: ax-bugs@nag.co.uk
--* Subject: [9][genfoam] Lazy function used before forced in domain init.

--@ Fixed  by: <Who> <Date>
--@ Tested by: <Name of new or existing file in test directory>
--@ Summary:   <Description of real problem and the fix>

-- Command line: See header comments in `textwritx.as'
-- Version: 1.1.12p5 (private edition)
-- Original bug file name: lazybug.txt


--------------------------------------------------------------------------
--==========> Split into two parts: textwritx.as and segv.as <==========--
--------------------------------------------------------------------------




--------------------------------------------------------------------------
------------------------------ textwritx.as ------------------------------
--------------------------------------------------------------------------
-- This file must be compiled -Fao -Fo and inserted into libaxllib.al and
-- libaxllib.a respectively. Then compile and run `segv.as'.
--
-- The bug can be seen by looking at the FOAM generated from this file:
-- examine the `addLevel1' function and notice that the lexical `writer'
-- is lazily-imported *after* it has been used for `cout'.
--
-- % axiomxl -Fao -Fo -Ffm -Q3 -laxllib textwritx.as
-- % ar r $AXIOMXLROOT/lib/libaxllib.al textwritx.ao
-- % ar r $AXIOMXLROOT/lib/libaxllib.a  textwritx.o
-- % axiomxl -Fx -Q3 -laxllib segv.as
-- % ./segv
--
-- Alternatively just drop textwritx.as into the Axllib source directory
-- and update the Makefile so that it becomes part of the library.
--------------------------------------------------------------------------

#include "axllib"


-- Comment out this line to see the version that works.
#assert SHOWBUG


extend %: with
{
   cout:%;
}
== add
{
   SI ==> SingleInteger;
   import from StandardIO;

   local wrCharacter!(out:OutFile)(c:Character):() ==
      write!(out, c);

   local wrString!(out:OutFile)(s:String, st:SI, lt:SI):SI ==
      write!(out, s, st, lt);

   local locfun(out:OutFile):TextWriter ==
      writer(wrCharacter! out, wrString! out);

#if SHOWBUG
   cout:% == locfun(stdout);
#else
   cout:% == writer(wrCharacter! stdout, wrString! stdout);
#endif
}


--------------------------------------------------------------------------
-------------------------------- segv.as ---------------------------------
--------------------------------------------------------------------------
-- Make sure that `textwritx.as' has been compiled and added to Axllib
-- before compiling this file (see the header comment in `textwritx.as'
-- for specific instructions on how to do this).

#include "axllib"

main():() ==
{
   import from TextWriter;
   cout << "This is a test" << newline;
}

main();
