#include "aldor"
#include "aldorio"
import from SingleFloat, DoubleFloat, List SingleFloat, List DoubleFloat;
for x in [0.0, (-1.0)]@List(SingleFloat) repeat {
	stdout << (1.0 / (0.0 - x)) << " " << (1.0 / (x * 0.0)) << newline;
}
for y in [0.0, (-1.0)]@List(DoubleFloat) repeat {
	stdout << (1.0 / (0.0 - y)) << " " << (1.0 / (y * 0.0)) << newline;
}
