#include "aldor"
#include "aldorio"
macro MI == MachineInteger;
macro INT == Integer;
import from MI, INT, Boolean, String, List MI;
pM(x: MI): () == stdout << x << newline;
pI(x: INT): () == stdout << x << newline;
pB(x: Boolean): () == stdout << x << newline;
pS(x: String): () == stdout << x << newline;
pL(x: List MI): () == stdout << x << newline;

zqrest(l: List MI): List MI == if empty? l then l else rest l;
zqap(f: MI -> MI, x: MI): MI == f f x;
zqnop(): () == {};
define ZqCat: Category == with { val: % -> MI; twice: % -> MI; default twice(x: %): MI == 2 * val x };
ZqDomA: ZqCat with { mkA: MI -> % } == add { Rep == MI; import from Rep; mkA(n: MI): % == per n; val(x: %): MI == rep x + (-8) }
ZqDomB: ZqCat with { mkB: MI -> % } == add { Rep == MI; import from Rep; mkB(n: MI): % == per n; val(x: %): MI == rep x + 6; twice(x: %): MI == 2 * rep x }
ZqBox(T: ZqCat): with { box: T -> %; get: % -> MI } == add { Rep == T; import from Rep; box(t: T): % == per t; get(b: %): MI == twice(rep b) + 4 }
import from ZqDomA, ZqDomB, ZqBox ZqDomA, ZqBox ZqDomB;
define ZqExc: Category == with;
ZqE1: ZqExc == add;
ZqE2: ZqExc == add;
zqf1(zqp0f1: MI): MI == {
	zqb1: Boolean := true;
	if zqb1 then {
		zqnop();
	};
	zqb2: Boolean := false;
	if zqb2 then {
		return val(mkA((zqp0f1 rem 6)));
	};
	((zqp0f1 - (-zqp0f1)) + (val(mkB(zqp0f1)) - (-7)))
}
zqf2(zqp0f2: MI, zqp1f2: MI): MI == {
	false => (zqp0f2 quo 1);
	zqb3: Boolean := true;
	if zqb3 then {
		zqnop();
	};
	empty?((empty@List(MI))) => ((993657 + zqp1f2) + (zqp1f2 - 256));
	((-3) - 256)
}
zqf3(zqp0f3: MI, zqp1f3: MI, zqp2f3: MI): MI == {
	(zqp0f3 <= 0) => 1099511627779;
	zqb4: Boolean := true;
	if zqb4 then {
		zqnop();
	};
	(not true) => ((#([3]@List(MI))) - (100 - zqp0f3));
	(zqf3((zqp0f3 - 1), (-1), (#(empty@List(MI)))) - (zqp2f3 rem 97))
}
zqf4(zqp0f4: MI, zqp1f4: MI): INT == {
	(zqp0f4 <= 0) => ((-26) * 8741534469328993119495374676733104682132);
	zqb5: Boolean := (zqp0f4 >= zqp0f4);
	if zqb5 then {
		return 1;
	};
	(zqf4((zqp0f4 - 2), 9) * (((zqp0f4 rem 7) + 2)::INT))
}
zqmk5(k: MI): MI -> MI == (x: MI): MI +-> (x - (k rem 17));
zqgen6(n: MI): Generator MI == generate { for i: MI in 1..n repeat { yield (i * (i rem 5)) } };
zqthr7(n: MI): MI == { if n > 1 then throw ZqE2; n + 2 }
-- main
zqv8: Boolean := false;
zqv9: INT := ((1708614017078225496777232508764683899624@INT) ^ (2@MI));
zqv10: INT := ((4294967297@INT) ^ (0@MI));
zqr11: Record(p: MI, q: INT) := [((if zqv8 then 7 else 3) - (-1)), 10];
pM(twice(mkB(3)));
pM((100 - zqf1((-3))));
try {
	throw ZqE1;
} catch E in {
	E has ZqExc => {
		pS("caught 23");
	};
	never
};
try {
	zqr11.q := (-18446744073709551616);
	pM((zqr11.p));
	throw ZqE2;
	pB(true);
} catch E in {
	E has ZqExc => {
		pS("caught 3");
	};
	never
} finally {
	pS("finally 7");
};
try {
	pM(((-2) rem 16));
	pM(zqthr7(8));
	zqr11.p := ((256 - 255) - 255);
} catch E in {
	E has ZqExc => {
		pS("caught 44");
		pM((if ((13 - 10) > twice(mkB(3))) then (if ((3@MI) > 7) then 256 else twice(mkB((5 rem 7)))) else ((#(empty@List(MI))) - (100 rem 2))));
	};
	never
} finally {
	pS("finally 87");
};
zqb6: Boolean := false;
if zqb6 then {
	pI((zqr11.q));
} else {
	try {
		zqr11.q := (zqf4(2147483647, (-3)) + zqv10);
		pM(0);
		throw ZqE2;
		zqr11.q := (zqf4((12 rem 11), 8) + zqf4((-7), 2));
	} catch E in {
		E has ZqExc => {
			pS("caught 4");
		};
		never
	} finally {
		pS("finally 72");
	};
	try {
		pI((-10000000000000000000000000));
		pM(zqthr7(4));
		pM(zqf3(((-2) rem 7), ((zqr11.p) rem 3), twice(mkA(4))));
	} catch E in {
		E has ZqExc => {
			pS("caught 75");
			pL(reverse(empty));
		};
		never
	};
};
zqv10 := 100000000000000000000;
pL(cons(val(mkB(2)), [7, 100, 10]));
zqr11.p := 1099511627779;
pM((zqmk5(8))((6 rem 11)));
pM((((3 - 10) - (-2147483648)) rem 255));
pI((zqv9 quo 4294967296));
pB(false);
try {
	zqr11.p := val(mkB((7 rem 5)));
	pM((10 * (((-28) rem 255) - (-7))));
	throw ZqE1;
	zqr11.q := (((if zqv8 then 3 else (-7))@MI)::INT);
} catch E in {
	E has ZqExc => {
		pS("caught 45");
		zqr11.q := ((4294967297 rem 100000000000000000003) + (zqv10 - zqv10));
	};
	never
} finally {
	pS("finally 20");
};
pM((-(-1)));
pL(reverse([zqf2(1000, 10)]));
pL(empty);
try {
	pM(zqap(zqmk5(4), 8));
	pM(zqthr7(4));
} catch E in {
	E has ZqExc => {
		pS("caught 1");
		zqv10 := (((zqv10 ^ (2@MI)) + zqf4((-1), (0 rem 5))) + ((zqr11.q) + (1 - zqv10)));
	};
	never
};
pM((0 rem (-3)));
try {
	zqv8 := (((-7)@MI) <= (-(2 - (-2147483648))));
	pM(zqthr7(0));
	pM(((-zqf2(11, (-2147483648))) - twice(mkA(((-2) rem 7)))));
} catch E in {
	E has ZqExc => {
		pS("caught 11");
		pM(((2147483648 + ((-7) quo 7)) - (-2147483648)));
	};
	never
} finally {
	pS("finally 55");
};
zqv9 := ((-10) * ((1000@MI)::INT));
pM((-2));
zqr11.q := (((1 + 3)@MI)::INT);
zqv9 := (((-4)@MI)::INT);
