#include "aldor"
#include "aldorio"
macro MI == MachineInteger;
import from MI, Pointer, List MI;
R ==> Record(nxt: Pointer, v: MI);
import from R;
head: R := [nil, 0];
for i in 1..300000 repeat head := [head pretend Pointer, i];
junk: MI := 0;
for r in 1..200 repeat {
	t: List MI := empty;
	for k in 1..2000 repeat t := cons(k + r, t);
	junk := (junk + first t) rem 1000003;
}
n: MI := 0; s: MI := 0;
p: R := head;
while not nil?(p.nxt) repeat { n := n + 1; s := (s + p.v) rem 1000003; p := (p.nxt) pretend R; }
stdout << n << " " << s << " " << junk << newline;
