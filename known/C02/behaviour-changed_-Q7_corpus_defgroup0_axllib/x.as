-- Copyright (c) 1990-2007 Aldor Software Organization Ltd (Aldor.org).
-- Cut-down version of bug 1090.

#include "axllib"

-- Don't optimise or the problem will vanish into the bit bucket!
--> testrun -laxllib -Q0


-- This file detects domain initialisation bugs in the def-group
-- analysis. Previously, when any domain export was required we
-- initialised the exports and locals in the order Rep, foo, boom,
-- bar and trouble. However, because the only reference to the
-- test() function we didn't import test$List Bar() until after
-- bar was given its value. Since bar calls test we segfault.
--
-- The fix is to ensure that all maps, local or exported, are
-- initialised before non-map exports.
--
-- Note that this problem only seems to arise when the list type
-- (Bar() in the example below) is sufficiently complicated. This
-- may mean that it only applies to dependent types.
define BarCat(S:AbelianMonoid):Category == with
{
   bob: () -> %;
}

Bar(dim:SingleInteger, S:AbelianMonoid):BarCat(S) == add
{
   Rep == S;
   import from Rep;

   bob():% == per 0;
}


Foo(num:SingleInteger, argList:List Bar(num, SingleInteger)):with
{
   bar:    %;
   foo:    SingleInteger -> %;
   boom:   () -> ();
}
== add
{
   Rep == SingleInteger;
   import from Rep;

   bar:% == foo(0$SingleInteger);

   local trouble():() == test argList;

   foo(x:SingleInteger):% ==
   {
      trouble();
      print << "Success!" << newline;
      per x;
   }

   boom():() == {}
}


main():() ==
{
   import from SingleInteger;
   import from List Bar(3, SingleInteger);
   import from Foo(3, [bob(), bob(), bob()]);
   boom();
}


main();

