-- Copyright (c) 1990-2007 Aldor Software Organization Ltd (Aldor.org).
--> testcomp
--> testrun -l axllib
#pile

#include "axllib"

macro I == Integer$AxlLib

f(n: I): I ==
	n =$I 0$I => 1$I
	n *$I f(n -$I 1$I)

g(): () ==
	import from AxlLib
	import from Integer
	print << f 3 <<newline

g()
