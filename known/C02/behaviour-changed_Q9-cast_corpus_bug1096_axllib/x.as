--* Received: from nirvana.inria.fr by nags2.nag.co.uk (4.1/UK-2.1)
--* 	id AA06626; Thu, 29 Aug 96 17:25:56 BST
--* Received: by nirvana.inria.fr (8.7.5/8.6.12) id SAA20351 for ax-bugs@nag.co.uk; Thu, 29 Aug 1996 18:19:29 +0200
--* Date: Thu, 29 Aug 1996 18:19:29 +0200
--* From: Stephen Watt <Stephen.Watt@sophia.inria.fr>
--* Message-Id: <199608291619.SAA20351@nirvana.inria.fr>
--* To: ax-bugs
--* Subject: [3] Over-riding implementations ignored

--@ Fixed  by: <Who> <Date>
--@ Tested by: <Name of new or existing file in test directory>
--@ Summary:   <Description of real problem and the fix>

-- Command line: axiomxl -Fx ex1.as
-- Version: AXIOM-XL version 1.1.5 for LINUX
-- Original bug file name: ex1.as

#include "axllib"

define Cat1: Category == with {
	op1: Integer -> Integer;
	op2: Integer -> Integer;

	default op1(n: Integer): Integer == {
		print << "The default op1 for " << n << newline;
		n*2
	}
}


Package1: Cat1 == add {
	op2(n: Integer): Integer == op1 op1 op1 n;
}



Package2: Cat1 == Package1 add {
	op1(n: Integer): Integer == { print << "The overriding op1 for " << n << newline; n }
}



main():() == {

	import from Integer;

	-- This should use the default op1, and does.
	print << "From package 1: " << newline << op2(3)$Package1 << newline;

	-- ************* This should use op1$Package2, but doesn't. **********
	print << "From package 2: " << newline << op2(3)$Package2 << newline;
}

main()
