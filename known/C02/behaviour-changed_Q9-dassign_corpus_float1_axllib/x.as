-- Copyright (c) 1990-2007 Aldor Software Organization Ltd (Aldor.org).
--> testrun -l axllib
#pile
#include "axllib.as"

import from Float, Integer, FormattedOutput
import from FormattedOutput

digits 50

a: Float := 1
b := pi()
c := 21.3456e-5

print("This is ~1 + ~1:~n~2~n~n")       (<<a,   <<a+a)
print("This is the sqrt of ~1:~n~2~n~n")(<<a+a, <<sqrt(a+a))
print("This is exp(~1):~n~2~n~n")       (<<a,   << exp1())
print("This is pi:~n~1~n~n")            (<<b)
print("This is pi squared:~n~1~n~n")    (<<b*b)
print("This is 21.3456e-5:~n~1~n~n")    (<<c)
print("This is cos(pi):~n~1~n~n")       (<<cos pi())
print("This is sin(pi/~1):~n~2~n~n")    (<<a+a, <<sin(pi()/(a+a)))
print("This is log(exp(1)):~n~1~n~n")   (<<log exp1())
print("This is exp(~1):~n~2~n~n")       (<<a+a, <<exp(a+a))
print("This is log(exp(~1)):~n~2~n~n")  (<<a+a, <<log exp(a+a))
print("This is atan(tan(~1)):~n~2~n~n") (<<a+a, <<atan tan(a+a))
print("This is tan(atan(~1)):~n~2~n~n") (<<a+a, <<tan atan(a+a))
