#include "aldor"
#include "aldorio"
macro MI == MachineInteger;
macro INT == Integer;
import from MI, INT, Boolean, String, List MI;
pM(x: MI): () == stdout << x << newline;
pI(x: INT): () == stdout << x << newline;
pB(x: Boolean): () == stdout << x << newline;
pS(x: String): () == stdout << x << newline;
pL(x: List MI): () == stdout << x << newline;

zqrest(l: List MI): List MI == if empty? l then l else rest l;
zqap(f: MI -> MI, x: MI): MI == f f x;
zqnop(): () == {};
define ZqCat: Category == with { val: % -> MI; twice: % -> MI; default twice(x: %): MI == 2 * val x };
ZqDomA: ZqCat with { mkA: MI -> % } == add { Rep == MI; import from Rep; mkA(n: MI): % == per n; val(x: %): MI == rep x + (-9) }
ZqDomB: ZqCat with { mkB: MI -> % } == add { Rep == MI; import from Rep; mkB(n: MI): % == per n; val(x: %): MI == rep x + (-7); twice(x: %): MI == 4 * rep x }
ZqBox(T: ZqCat): with { box: T -> %; get: % -> MI } == add { Rep == T; import from Rep; box(t: T): % == per t; get(b: %): MI == twice(rep b) + (-4) }
import from ZqDomA, ZqDomB, ZqBox ZqDomA, ZqBox ZqDomB;
define ZqExc: Category == with;
ZqE1: ZqExc == add;
ZqE2: ZqExc == add;
zqf1(zqp0f1: MI, zqp1f1: MI): Boolean == {
	((zqp0f1 - 7) > (zqp1f1 + zqp0f1)) => ((#([2147483648, (-23), 100]@List(MI))) ~= (5 * (-1)));
	((#(cons(255, [41])@List(MI))) < 3)
}
zqf2(zqp0f2: MI, zqp1f2: MI): MI == {
	(zqp0f2 <= 0) => val(mkA((3 rem 11)));
	(val(mkA(7)) ~= (#([0]@List(MI)))) => (#([1099511627779, (-1), 10]@List(MI)));
	zqv3: MI := ((zqp0f2 + zqp0f2) - 2147483647);
	(zqf2((zqp0f2 - 2), (0 rem 7)) + (zqp0f2 rem 7))
}
zqf4(zqp0f4: INT, zqp1f4: MI, zqp2f4: MI): MI == {
	zqb1: Boolean := true;
	if zqb1 then {
		zqnop();
	};
	(-zqp2f4)
}
zqf5(zqp0f5: Boolean): MI == {
	zqv6: INT := (zqf2(((-1) rem 5), 0)::INT);
	zqv7: INT := 18446744073709551615;
	zqv8: Boolean := (not ((1099511627779@MI) = 3));
	(#cons(zqf4(zqv7, (4 rem 5), 10), [1099511627779, 0, (-2)]))
}
zqthr9(n: MI): MI == { if n > 0 then throw ZqE2; n + (-1) }
-- main
zqv10: Boolean := (((if false then (-1) else 18446744073709551615)@INT) <= (18446744073709551615 + 9223372036854775808));
zqv11: List MI := reverse([7]);
zqv12: Boolean := ((36@MI) >= 2147483648);
zqr13: Record(p: MI, q: INT) := [((0 + 5) * zqf4(2147483648, 256, (-7))), 18446744073709551615];
zqu14: Union(i: MI, t: String) := ["0-//; 0,{_"X;_"}cXa;*X"];
try {
	pM(zqthr9(6));
	pM((if ((0@INT) = (if zqv10 then 2 else (-18446744073709551616))) then (zqf2(3, (-1)) + 7) else ((if zqv12 then 256 else (-747108)) * (#zqv11))));
} catch E in {
	E has ZqExc => {
		pS("caught 61");
	};
	never
} finally {
	pS("finally 45");
};
zqr13.p := (zqf5(false) * (2147483648 - 1));
zqu14 := [("._"Y(9Z9+" + " ")];
zqb2: Boolean := true;
if zqb2 then {
	zqr13.p := 0;
	zqv10 := zqv12;
} else {
	zqr13.q := (-23);
	try {
		pM(zqf4((if (zqv12 and zqv12) then 100000000000000000000 else (if zqv12 then (-1) else 0)), (3 rem 7), 7));
		pM(zqthr9(8));
		zqr13.p := (-(-(-47)));
	} catch E in {
		E has ZqExc => {
			pS("caught 13");
			zqv10 := ((2@MI) < 2147483648);
		};
		never
	} finally {
		pS("finally 48");
	};
};
pM((0 * (if true then 2147483648 else ((-1) - 10))));
pB((twice(mkB((zqr13.p))) ~= (-2)));
zqr13.q := ((100000000000000000000 + 0) rem 7);
pM(zqf2((1 rem 7), 9));
zqr13.q := ((if false then 5969930455405499534519165708304283779803 else (-10000000000000000000000000)) + (-1));
pI(4294967297);
