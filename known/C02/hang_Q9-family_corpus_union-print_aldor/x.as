#include "aldor"
#include "aldorio"

U ==> Union(a: Integer, b: String);

test1(): () == {
	u: U := [12];
	stdout << u << newline;
}

test2(): () == {
	import from Assert String;
	import from String;

        u: U := [12];
	buf: StringBuffer := new();
	out: TextWriter := buf::TextWriter;

	out << u;

	assertEquals("[12@AldorInteger]", string buf);
}
test1();
test2();
