-- Copyright (c) 1990-2007 Aldor Software Organization Ltd (Aldor.org).
#include "axllib.as"
#pile

-- Tests of various sections of the optimiser.

--> testcomp -OQinline-all
--> testrun -OQinline-all -l axllib

-- This gives the env. merger a workout
LoopList(T: BasicType): with
     breadthfirst: (T -> List T, T -> Boolean) -> T -> (List T)
  == add
      import from List T
      breadthfirst(nex: T->List T, pred: T->Boolean)(x:T):List T ==
          bfs(ll:List T):List T ==
            empty? ll => nil$(List T)
            pred (first ll) => cons(first ll, bfs concat(rest ll, nex first ll))
            bfs concat(rest ll, nex first ll)
          bfs [x]

-- Silly Driver
import from SingleInteger
gen(t: SingleInteger): List SingleInteger == 
	if t < 20 then [ (i*t+7) for i in 1..5] else [];
test(t: SingleInteger): Boolean == (t mod 5) = 0;

foo():() ==
	import from LoopList SingleInteger;
	import from List SingleInteger;
	print << breadthfirst(gen,test)(0);
	print << newline

foo()
