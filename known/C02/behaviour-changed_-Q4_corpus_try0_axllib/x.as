--> testcomp
--> testrun -l axllib
--> testrun -O -l axllib
--> testint
--> testint -O

#include "axllib"

define ZeroDivide(R: Ring): Category == Exception with {
	n: R;
} 

define Memory: Category == Exception with; 

define Memory: Memory@Category == add; 

ZeroDivide(R: Ring)(v: R == 1+1): ZeroDivide(R) == add {
	n: R == v;
} 

foo(n: Integer): () == {
	print << n;
	x := try myDivide(4, n) catch E in {
		E has ZeroDivide(Integer) => {
			print << "  Div by zero, val: " << n$E;
			215
		}
		true => throw E;
		never;
	} finally {
		print << "." << newline;
	}
--	try myDivide(1,1) catch finally print << "xxx" << newline;
	print << "Result: " << x << newline;
}


myDivide(n: Integer, m: Integer): Integer == {
	zero? m => throw ZeroDivide(Integer) n;
	m = 1   => throw (ZeroDivide Integer)();
	m = 33  => throw Memory;
	n quo m;
}

bar(): () == {
	import from List Integer;
	l := [0,1,17,33];
	for x in l repeat {
		try {
			foo(x);
			1
		} catch E in {
			if E has Memory then print << "Yow!" << newline;
			44;
		} finally {
			print << "Dunnit" << newline;
		}
	}
}

bar();

#if 0
myDivide(n: Integer, m: Integer): Integer throw (ZeroDivide(Integer), Memory) == {
	zero? m => throw ZeroDivide(Integer) n;
	n = 1 => throw (add@Memory);
	n quo m;
	
}

#endif
