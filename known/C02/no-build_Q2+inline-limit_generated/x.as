#include "aldor"
#include "aldorio"
macro MI == MachineInteger;
macro INT == Integer;
import from MI, INT, Boolean, String, List MI;
pM(x: MI): () == stdout << x << newline;
pI(x: INT): () == stdout << x << newline;
pB(x: Boolean): () == stdout << x << newline;
pS(x: String): () == stdout << x << newline;
pL(x: List MI): () == stdout << x << newline;

zqrest(l: List MI): List MI == if empty? l then l else rest l;
zqap(f: MI -> MI, x: MI): MI == f f x;
zqnop(): () == {};
ZQK5 ==> (-76);
macro ZQM2(x) == (((x) * (x)) * (-2));
define ZqCat: Category == with { val: % -> MI; twice: % -> MI; default twice(x: %): MI == 2 * val x };
ZqDomA: ZqCat with { mkA: MI -> % } == add { Rep == MI; import from Rep; mkA(n: MI): % == per n; val(x: %): MI == rep x + (-3) }
ZqDomB: ZqCat with { mkB: MI -> % } == add { Rep == MI; import from Rep; mkB(n: MI): % == per n; val(x: %): MI == rep x + 8; twice(x: %): MI == 4 * rep x }
ZqBox(T: ZqCat): with { box: T -> %; get: % -> MI } == add { Rep == T; import from Rep; box(t: T): % == per t; get(b: %): MI == twice(rep b) + 4 }
import from ZqDomA, ZqDomB, ZqBox ZqDomA, ZqBox ZqDomB;
define ZqExc: Category == with;
ZqE1: ZqExc == add;
ZqE2: ZqExc == add;
zqf1(zqp0f1: MI): MI == {
	zqv2: MI := ((zqp0f1 - zqp0f1) + get(box(mkB((8 rem 11)))));
	zqb1: Boolean := false;
	if zqb1 then {
		return (zqp0f1 + (zqv2 + zqp0f1));
	};
	zqv3: MI := 0;
	while (zqv3 < 7) repeat {
		zqv3 := (zqv3 + 1);
		zqv2 := (zqv2 - (zqp0f1 rem 1000));
	};
	(zqv2 - zqv2)
}
zqf4(zqp0f4: MI, zqp1f4: INT, zqp2f4: MI): MI == {
	(zqp0f4 <= 0) => get(box(mkB(zqp0f4)));
	(zqf4((zqp0f4 - 2), (if true then zqp1f4 else zqp1f4), zqp0f4) + (zqp0f4 rem 10))
}
zqf5(zqp0f5: MI, zqp1f5: MI): Boolean == {
	(zqp0f5 <= 0) => (true or true);
	zqv6: MI := (if (zqp1f5 = zqp0f5) then (zqp1f5 + zqp1f5) else 13);
	(zqf5((zqp0f5 - 1), (zqp1f5 rem 13)) or ("XX_"9. {bc,*__9-b-:} *" = "+"))
}
zqmk7(k: MI): MI -> MI == (x: MI): MI +-> (x - (k rem 17));
zqgen8(n: MI): Generator MI == generate { for i: MI in 1..n repeat { yield (i * (i rem 5)) } };
zqo9(x: MI): MI == x + 1;
zqo9(s: String): MI == (#s) * 2;
zqthr10(n: MI): MI == { if n > 4 then throw ZqE2; n + (-1) }
-- main
zqv11: Boolean := (((256 - (-746819))@MI) <= (3 - 10));
zqr12: Record(p: MI, q: INT) := [(zqf1((11 rem 5)) - 3), 2];
zqu13: Union(i: MI, t: String) := [((-1)@MI)];
zqb2: Boolean := (zqf1((-7)) ~= (0 - 0));
if zqb2 then {
	zqb3: Boolean := ((not false) and (true or zqv11));
	if zqb3 then {
		zqv11 := true;
	};
} else {
	zqr12.q := (((-5105684394131115514738431352066518095649) + 100000000000000000000) + (10 rem 1000000007));
	zqv11 := ((1000000000000000000000000000007 quo (-8589934591)) < (((-10000000000000000000000000)@INT) ^ (3@MI)));
};
try {
	pM(zqthr10(2));
	pM((if zqv11 then zqf4(9, ((100@MI)::INT), zqf4((0 rem 5), (-9), (8 rem 7))) else zqap(zqmk7((zqr12.p)), ZQK5)));
} catch E in {
	E has ZqExc => {
		pS("caught 41");
	};
	never
} finally {
	pS("finally 97");
};
pM((((13 rem 16) + 65535) + (zqr12.p)));
pM(((if false then (0 + 2147483648) else zqf1(2)) + ((1000 + 10) rem (-3))));
zqr12.p := ((7 - (-1)) - zqf4(9, 1, 4));
zqb4: Boolean := true;
if zqb4 then {
	try {
		zqr12.q := 2147483648;
		pM(zqthr10(4));
	} catch E in {
		E has ZqExc => {
			pS("caught 90");
		};
		never
	} finally {
		pS("finally 64");
	};
};
try {
	zqr12.q := (if (((-2)@MI) ~= (-14)) then 9223372036854775808 else (if zqv11 then 9223372036854775808 else (-9)));
	zqr12.p := (zqr12.p);
} catch E in {
	E has ZqExc => {
		pS("caught 61");
		pM(2147483648);
	};
	never
} finally {
	pS("finally 16");
};
zqr12.q := 1;
pL(reverse([get(box(mkA((0 rem 7)))), ZQM2(65535), (-(-2147483648)), ((-2) + 7)]));
pI(((2147483648 * (4294967297 + 18446744073709551615)) * ((10 * 0) rem (-8589934591))));
