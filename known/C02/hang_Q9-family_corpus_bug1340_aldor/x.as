--* From Manuel.Bronstein@sophia.inria.fr  Tue Jul 16 18:30:29 2002
--* Received: from welly-1.star.net.uk (welly-1.star.net.uk [195.216.16.165])
--* 	by nag.co.uk (8.9.3/8.9.3) with SMTP id SAA29002
--* 	for <ax-bugs@nag.co.uk>; Tue, 16 Jul 2002 18:30:28 +0100 (BST)
--* Received: (qmail 14501 invoked from network); 16 Jul 2002 17:30:00 -0000
--* Received: from 4.star-private-mail-12.star.net.uk (HELO smtp-in-4.star.net.uk) (10.200.12.4)
--*   by delivery-1.star-private-mail-4.star.net.uk with SMTP; 16 Jul 2002 17:30:00 -0000
--* Received: (qmail 16908 invoked from network); 16 Jul 2002 17:29:59 -0000
--* Received: from mail17.messagelabs.com (62.231.131.67)
--*   by smtp-in-4.star.net.uk with SMTP; 16 Jul 2002 17:29:59 -0000
--* X-VirusChecked: Checked
--* Received: (qmail 2267 invoked from network); 16 Jul 2002 17:29:58 -0000
--* Received: from panoramix.inria.fr (138.96.111.9)
--*   by server-5.tower-17.messagelabs.com with SMTP; 16 Jul 2002 17:29:58 -0000
--* Received: by panoramix.inria.fr (8.11.6/8.11.6) id g6GHTwA11111 for ax-bugs@nag.co.uk; Tue, 16 Jul 2002 19:29:58 +0200
--* Date: Tue, 16 Jul 2002 19:29:58 +0200
--* From: Manuel Bronstein <Manuel.Bronstein@sophia.inria.fr>
--* Message-Id: <200207161729.g6GHTwA11111@panoramix.inria.fr>
--* To: ax-bugs@nag.co.uk
--* Subject: [2] yet another -q2 --> runtime seg fault

--@ Fixed  by: <Who> <Date>
--@ Tested by: <Name of new or existing file in test directory>
--@ Summary:   <Description of real problem and the fix>

-- Command line: axiomxl -fx -laldor dblout.as
-- Version: 1.0.0
-- Original bug file name: dblout.as

----------------------------- dblout.as ------------------------
--
-- This illustrates a serious optimizer bug in << from DoubleFloat:
--
-- % aldor -fx -laldor dblout.as
-- % dblout  --> Segmentation fault
--
-- % aldor -fo -q1 sal_dfloat.as
-- % aldor -fx -laldor dblout.as sal_dfloat.o
-- % dblout  --> works
--

#include "aldor"
#include "aldorio"

import from DoubleFloat;

main():()=={
	stdout << 1.0 << newline;
}
main();
