-- Copyright (c) 1990-2007 Aldor Software Organization Ltd (Aldor.org).
--> testrun -O -l axllib
--> testcomp

-- Tests domain and category name handling.  -- Output should be the
-- list of domains, bracketed appropriately.
-- Check for Dunno --- this indicates a bug!
#include "axllib"

S(X: Ring)(Y: Ring): with == add;

X(n: SingleInteger): Category == with;

T1(): () == {
	import from DomainName, SingleInteger;
	l: List Type == [Complex Float, Integer, 
			 SingleIntegerMod 37,
			 Ring, FiniteAggregate Integer,
			 Aggregate List Integer,
			 Record(x: Integer),
			 Record(Integer, DoubleFloat),
			 Enumeration(a), 
			 S(DoubleFloat)(Float),
			 X 32
			];
	for x in l repeat print << typeName x << newline;
}


T1();
