-- Copyright (c) 1990-2007 Aldor Software Organization Ltd (Aldor.org).
--> testcomp -O
--> testrun -O -l axllib 

#include "axllib.as"
#pile

test8(n: SingleInteger): SingleInteger ==
	z: SingleInteger := n
	
	f1(q: SingleInteger): SingleInteger ==
		t: SingleInteger := q

		f2(r: SingleInteger): SingleInteger ==
			t * f1(r-1)

		q = 0 => q+1
		f2(q)
	f1(z)

import from SingleInteger

print << test8 0 <<newline
print << test8 4 <<newline

pow3(i: SingleInteger, j: SingleInteger): SingleInteger ==
	import from String
	prod: SingleInteger := 1
	for k: SingleInteger in 1..j for m: SingleInteger in 1..j repeat
		for l: SingleInteger in m..j repeat
			print << l << " "
		print << newline
		prod := i * prod
	prod

print << pow3(3,4) << newline
