--* Received: from server1.rz.uni-leipzig.de by nags2.nag.co.uk (4.1/UK-2.1)
--* 	id AA11109; Fri, 26 Jul 96 00:51:15 BST
--* Received: from aix550.informatik.uni-leipzig.de by server1.rz.uni-leipzig.de with SMTP
--* 	(1.37.109.16/16.2) id AA018398317; Fri, 26 Jul 1996 01:45:17 +0200
--* Received: by aix550.informatik.uni-leipzig.de (AIX 3.2/UCB 5.64/BelWue-1.1AIXRS)
--*           id AA27602; Fri, 26 Jul 1996 01:45:28 +0100
--* Date: Fri, 26 Jul 1996 01:45:28 +0100
--* From: hemmecke@aix550.informatik.uni-leipzig.de (Ralf Hemmecke)
--* Message-Id: <9607260045.AA27602@aix550.informatik.uni-leipzig.de>
--* To: ax-bugs
--* Subject: [2] Problem with 0$DirectProduct

--@ Fixed  by: <Who> <Date>
--@ Tested by: <Name of new or existing file in test directory>
--@ Summary:   <Description of real problem and the fix>

-- Command line: axiomxl -Q0 -Fao -V -Fo -Fx xxx.as
-- Version: AXIOM-XL version 1.1.6 for AIX RS/6000
-- Original bug file name: xxx.as

-- Compile with 
--  axiomxl -Q0 -Fao -V -Fo -Fx xxx.as
-- Running the programm xxx yields the following output

--:Robot
--:DirectProduct  !!!!!!!!!!!!!!!!!!!!!!!!!!!!!!!!!!
--:The DP-ZERO.
--:Creation of E
--:ll =list(1, 1, 0, 0, 0)
--:CalixTerms !!!!!!!!!!!!!!!!!!!!!!!!!
--:This is DP
--:(0,0,0,0,0)Null
--:coerce DP
--:(0,0,0,0,0)
--:degreeList
--:Segmentation fault(coredump)

-- I hope that this program is short enough. I am unable to locate the 
-- error any further. My guess is that it has something to do with the
-- creation of 0 in DirectProduct or with 1 in CalixTerms. But I am not
-- really sure.

-- begin xxx.as --------------------------------------------------------

#include "axllib"

macro {
  B     == Boolean;
  SI    == SingleInteger;
  L     == List;
  DI    == DirectProduct(numOfVars,I);
  I     == SI;
  LN    == List I;
}
--------------------------------------------------------------------
define DirectProductCategory(S:AbelianMonoid): Category == AbelianMonoid
with {
  set!: (%,I,S) -> S;
  apply: (%, I) -> S;
  map: (S->S, %) -> %;
  map: ((S,S)->S, %,%) -> %;
  coerce: List S -> %;
  export from S;
}

DirectProduct(dim:I,S:AbelianMonoid): DirectProductCategory S ==
 PrimitiveArray S add {
  print << "DirectProduct  !!!!!!!!!!!!!!!!!!!!!!!!!!!!!!!!!!" << newline;
  Rep ==> PrimitiveArray S; 
  import from Rep; 
  inline from Rep;
  0: % == {print << "The DP-ZERO." << newline; per new(dim,0$S)};
  ZERO ==> 0;
  coerce(ls:List S):% == {
    w:Rep := new(dim,ZERO);
    for s in ls for i in 1..dim repeat w.i := s;
    per w
  }
  apply(x:%,i:I):S == (rep x).i;
  set!(x:%,i:I,s:S):S == set!(rep x,i,s);
  map(f:S-> S, v: %):% == {
    vv:Rep := new(dim,ZERO);
    for i in 1..dim repeat vv.i := f((rep v).i);
    per vv;
  }
  map(f:(S,S) -> S, v1:%, v2:%): % == {
    vv:Rep := new(dim,ZERO);
    for i in 1..dim repeat vv.i := f((rep v1).i,(rep v2).i);
    per vv
  }
  (v1: %) = (v2: %): B == {
    for i in 1..dim repeat (rep v1).i ~= (rep v2).i => return false;
    true
  }
  (p: TextWriter) << (v: %): TextWriter == {
    print << "DP" << newline;
    dim=0 => p << "()";
    p << "(" << (rep v).1;
    for i in 2..dim repeat p  << "," << (rep v).i;
    p << ")"
  }
  zero?(v:%):B == v = 0;
  (v1: %) + (v2: %): % == map(+$S, v1, v2);
  +(v: %): % == v;
}

CalixTerms(
    numOfVars: I,
    weightList: L DI
  ): Join(Order, Monoid) with {
  coerce: LN -> %;
} == add {
  print << "CalixTerms !!!!!!!!!!!!!!!!!!!!!!!!!" << newline;
  macro {
    EX(x)   == (rep(x).ex);
    LDEG(x) == (rep(x).ldeg);
  }
  Rep ==> Record(ex:DI,ldeg:L I);
  import from Rep;
  1:% == {import from L I; print << "This is " << (0$DI)<< "Null" << newline; 
  --  per [0$DI, [0$I for i in weightList]]}; 
    0$DI::%}
  sample:% == 1$%;
  local dot(di:DI,dn:DI):I == {
    print << "DOT " << di << " and " << dn << newline;
    s:I := di.1 * dn.1;
    for i:I in 2..numOfVars repeat { s := s + di.i * dn.i }
    s;
  }
  local degreeList(z:DI):L(I) == {print << "degreeList" << newline;
    [dot(weight,z) for weight in weightList];}
  coerce(dn:DI):% == {print << "coerce " << dn << newline;
    x:L(I) := degreeList dn;
    -- [dn, degreeList dn]};
    per [dn, x]};
  coerce(ln:LN):% == {
    print << "COERCE-LN: " << ln << newline;
    if #ln = numOfVars then {
      ln::DI::%
    }else{
      error "length of given list does not match number of variables"
    }
  }
  (x:%) = (y:%):B == EX x = EX y;
  (x:%) ^ (n:Integer):% == power(1,x,n)$BinaryPowering(%,*,Integer);
  (p:TextWriter) << (x:%):TextWriter == {
    vars:L String:= ["S1","S2","S3","L2","L3"];
    zero?(EX x) => p << 1$SI;
    printed: B := false;
    for i:SI in 1..numOfVars|not zero?(e:=EX(x).i) repeat {
      if printed then p << "*";
      p << vars.i; printed := true;
      if e~=1 then p << "^" << e;
    }
    p;
  }
  (x:%) * (y:%):% == per [EX x+EX y, [i+j for i in LDEG x for j in LDEG y]];
  (x:%) > (y:%):B == true;
}
----------------------------------------------------------------------------
MAIN():() == {
print << "Robot" << newline;
import from List List I;
numOfVars:I == 5;
weightList:List List I := [[1,1,1,0,0], [0,0,0,1,1]];
wl:List(DI) == [w::DI for w in weightList];
print << "Creation of E" << newline;
E == CalixTerms(numOfVars,wl);
import from E,I;
print << "ll =";
ll:LN := [1,1,0,0,0];
print <<ll<< newline;
print << (ll::E) << " = 1$E" << newline
}
MAIN();
