-- Copyright (c) 1990-2007 Aldor Software Organization Ltd (Aldor.org).
--> testrun -M no-ALDOR_W_FunnyEscape -l axllib

#pile
#include "axllib"
#library FormatLib "fmtout.ao"
import from FormatLib;

import from
   DoubleFloat
   Float
   SingleInteger
   Integer
   NumberScanPackage DoubleFloat
   NumberScanPackage Float
   NumberScanPackage SingleInteger
   NumberScanPackage Integer
   String

df1 : DoubleFloat := 34.0
df1_1 : DoubleFloat := scanNumber " 34.0"
df1_2 : DoubleFloat := scanNumber "34.0"
df2 : DoubleFloat := scanNumber "34.3"
df3 : DoubleFloat := - 34.0
df3_1 : DoubleFloat := scanNumber "- 34.0"
df3_2 : DoubleFloat := scanNumber " - 34.0"

print << "DoubleFloat 34.0: " << df1 << newline
print << "DoubleFloat _" 34.0_": " << df1_1 << newline
print << "DoubleFloat _"34.0_": " << df1_2 << newline
print << "DoubleFloat _"34.3_": " << df2 << newline
print << "DoubleFloat - 34.0: " << df3 << newline
print << "DoubleFloat _"- 34.0_": " << df3_1 << newline
print << "DoubleFloat _" - 34.0_": " << df3_2 << newline

f1 : Float := 34.0
f1_1 : Float := scanNumber " 34.0"
f1_2 : Float := scanNumber "34.0"
f1_3 : Float := scanNumber "34.3"
f3 : Float := - 34.0
f3_1 : Float := scanNumber "- 34.0"
f3_2 : Float := scanNumber " - 34.0"

print << "Float 34.0: " << f1 << newline
print << "Float _" 34.0_": " << f1_1 << newline
print << "Float _"34.0_": " << f1_2 << newline
print << "Float _"34.3_": " << f1_3 << newline
print << "Float - 34.0: " << f3 << newline
print << "Float _"- 34_": " << f3_1 << newline
print << "Float _" - 34_": " << f3_2 << newline

si1 : SingleInteger := 24
si2_1 : SingleInteger := scanNumber " 24"
si2_2 : SingleInteger := scanNumber "24 "
si3 : SingleInteger := - 34
si3_1 : SingleInteger := scanNumber "- 34"
si3_2 : SingleInteger := scanNumber " - 34"

print << "SingleInteger 24: " << si1 << newline
print << "SingleInteger _" 24_": " << si2_1 << newline
print << "SingleInteger _"24 _": " << si2_2 << newline
print << "SingleInteger - 34: " << si3 << newline
print << "SingleInteger _"- 34_": " << si3_1 << newline
print << "SingleInteger _" - 34_": " << si3_2 << newline

i1 : Integer := 24
i2_1 : Integer := scanNumber " 24"
i2_2 : Integer := scanNumber "24 "
i3 : Integer := - 34
i3_1 : Integer := scanNumber "- 34"
i3_2 : Integer := scanNumber " - 34"

print << "Integer 24: " << i1 << newline
print << "Integer _" 24_": " << i2_1 << newline
print << "Integer _"24 _": " << i2_2 << newline
print << "Integer - 34: " << i3 << newline
print << "Integer _"- 34_": " << i3_1 << newline
print << "Integer _" - 34_": " << i3_2 << newline
