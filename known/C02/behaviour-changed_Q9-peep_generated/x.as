#include "aldor"
#include "aldorio"
macro MI == MachineInteger;
macro INT == Integer;
import from MI, INT, Boolean, String, List MI;
pM(x: MI): () == stdout << x << newline;
pI(x: INT): () == stdout << x << newline;
pB(x: Boolean): () == stdout << x << newline;
pS(x: String): () == stdout << x << newline;
pL(x: List MI): () == stdout << x << newline;

zqrest(l: List MI): List MI == if empty? l then l else rest l;
zqap(f: MI -> MI, x: MI): MI == f f x;
zqnop(): () == {};
ZQK3 ==> 96;
macro ZQM9(x) == (((x) * (x)) + 3);
define ZqCat: Category == with { val: % -> MI; twice: % -> MI; default twice(x: %): MI == 2 * val x };
ZqDomA: ZqCat with { mkA: MI -> % } == add { Rep == MI; import from Rep; mkA(n: MI): % == per n; val(x: %): MI == rep x + (-5) }
ZqDomB: ZqCat with { mkB: MI -> % } == add { Rep == MI; import from Rep; mkB(n: MI): % == per n; val(x: %): MI == rep x + (-4); twice(x: %): MI == 4 * rep x }
ZqBox(T: ZqCat): with { box: T -> %; get: % -> MI } == add { Rep == T; import from Rep; box(t: T): % == per t; get(b: %): MI == twice(rep b) + (-4) }
import from ZqDomA, ZqDomB, ZqBox ZqDomA, ZqBox ZqDomB;
zqgen1(n: MI): Generator MI == generate { for i: MI in 1..n repeat { yield (i * (i rem 5)) } };
-- main
zqv2: List MI := [(#(empty@List(MI))), (2147483648 + 42), ((-2147483648) + 7), (255 - 1)];
zqv3: MI := (#cons(7, zqv2));
zqv4: Boolean := ((not true) or (zqv3 > zqv3));
zqr5: Record(p: MI, q: INT) := [(-(-zqv3)), (if true then ((100000000000000000000@INT) ^ (5@MI)) else 2147483648)];
pB(zqv4);
zqb1: Boolean := ((zqv3 ~= 1099511627779) or true);
if zqb1 then {
	pM(zqv3);
	zqv2 := [2147483648, 5];
};
pM((#([val(mkB(zqv3)), (zqv3 * zqv3)]@List(MI))));
zqr5.q := (((-1)@INT) ^ (5@MI));
pB(((((-9223372036854775808) quo 4294967296)@INT) ~= 4294967297));
pB((true or zqv4));
pM((val(mkA((zqr5.p))) + zqv3));
zqr5.q := 100000000000000000000;
pM((#([256, 23]@List(MI))));
pM((#reverse(zqrest(zqv2))));
