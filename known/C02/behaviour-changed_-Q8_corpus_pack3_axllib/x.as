-- Copyright (c) 1990-2007 Aldor Software Organization Ltd (Aldor.org).
--> testgen f -Q3
--> testrun -Q3 -l axllib

#include "axllib"
#include "../pack1/packdefs"

macro {
	SI == SingleInteger;
	DF == DoubleFloat;
}

extend SI : GenericType == add;

extend DF : Packable with {
	RawType:	% -> BDFlo;
	double:		% ->* %;
}
== add {
	RawType (x: %) : BDFlo == raw x;

	raw (x: %) : Raw % == x::BDFlo;
	box (x: Raw %) : % == x::%;

	double (x: %) :* % == x + x;
}

--!! This passes type inference just fine, but we cannot generate
--!! the correct foam type for raw values from S.
Array_*(S: Packable) : Join(ArrayCategory S, GenericType) with {
	empty:		SI -> %;
	extend!:	(%, S) -> ();
	find:		(%, S) ->* SI;
	map:		(S ->* S, %) -> %;
}
== Array S add {
	import from S, SI;

	find (v: %, s: S) :* SI == {
		for i in 1..#v repeat
			v.i = s => return i;
		0;
	}

	map (f: S ->* S, v: %) : % == {
		n := #v;
		w := empty n;
		for i in 1..n repeat extend!(w, f apply(v,i));
		w;
	}
}

main () : () == {
	import from SI, DF;
	inline from SI, DF;

	v: Array_* DF == [1.2, 2.3, 3.4];
	print << 2 << " = ";
	print << find(v, apply(v,2)) << newline;
	print << [2.4, 4.6, 6.8] << newline;
	print << map(double, v) << newline;
}

main();
