-- Copyright (c) 1990-2007 Aldor Software Organization Ltd (Aldor.org).
--> testrun -l axllib

#pile
#include "axllib.as"

macro
	SI == SingleInteger
	Bit == Boolean

+++ `Permutation' is a domain of permutations.
+++
+++ Author: ADK
+++ Date Created: 13-JUL-1993 22:06:19.00

Permutation(n: SI): Join(Group, Finite) with
    bracket: Tuple SI -> %		++ Construct a permutation
    coerce: Tuple SI -> %		++ Construct a permutation
    coerce: Cycle n -> %		++ Construct a permutation
    apply: (%, SI) -> SI		++ Cayley action

  == add

    macro Rep == Array SI

    import from
      Rep
      String
      Segment SI

    default
      i: SI

    sample: % == per [ i for i in 1 .. n ]

    1: % == per [ i for i in 1 .. n ]

    ( a: % ) = ( b: % ): Bit == (rep a) = (rep b)
    ( a: % ) ~= ( b: % ): Bit == ~(a = b)

    [t: Tuple SI]: % ==
      length t ~= n => error("Bad permutation: wrong number of values")
      local
        r: Array Bit == new(n, false)
        s: Bit := true
      for k in 1..length t repeat
        i := element(t, k);
	i < 1 or i > n => error("Bad permutation: value out of range")
        r.i := true
      for b: Bit in r while s repeat s := s and b
      ~s => error("Bad permutation: not all values specified")
      per [t]

    #: Integer == n::Integer

    coerce(t: Tuple SI): % == [t]

    (p: TextWriter) << (q:%): TextWriter ==
      local r: Rep == rep q
      p << ("permutation(")
      if not empty? r then p << (r.1)
      for i in 2 .. #r repeat p << (", ") << (r.i)
      p << (")")

    apply(p: %, j: SI): SI ==
      if j < 1 or j > n
        then error("Bad permutation application: value out of range")
      (rep p).j

    ( a: % ) * ( b: % ): % ==
      per [ (rep a)((rep b) i) for i in 1 .. n ]

    ( a: % ) ^ (n: Integer) : % == error "not implemented"

    inv(a: %): % ==
      local r: Rep == new(n, 0)
      for i in 1 .. n repeat r((rep a) i) := i
      per r

    coerce(c: Cycle n): % == per [ c.i for i in 1 .. n ]

+++ `Cycle' is a domain of permutations.
+++
+++ Author: ADK
+++ Date Created: 19-JUL-1993 12:55:57.00

Cycle(n: SI): Join(Group, Finite) with
    bracket: Tuple SI -> %		++ Construct a cycle
    coerce: Tuple SI -> %		++ Construct a cycle
    apply: (%, SI) -> SI		++ Cayley action
    coerce: Permutation n -> %		++ Construct a cycle

  == add

    macro Rep == List List SI

    import from
      Rep
      List SI
      String
      Permutation n

    default sub: List SI
    default i: SI

    sample : % == per [ [i]@List SI for i in 1 .. n ]

    apply(c: %, j: SI): SI ==
      if j < 1 or j > n
        then error("Bad cycle application: value out of range")
      for sub in (rep c) repeat
        l := sub
        while l repeat
	  if first l = j then
            return (if rest l then first rest l else first sub)
          l := rest l
      error ""

    (p: TextWriter) << (c: %): TextWriter ==
      p << ("cycle(")
      for sub in (rep c) repeat
	p << ("(")
        if not empty? sub then p << (first sub)
	for i in rest sub repeat p << (" ") << (i)
	p << (")")
      p << (")")

    -- Compute the subcycle from permutation p starting with element j
    -- and ending with element k <= j. Unless all the elements are >= k
    -- an empty list will be returned.

    subcycle(p: Permutation n, j: SI, k: SI): List SI ==
      j < k => nil
      p.j = k => [j]
      local c: List SI == subcycle(p, p.j, k)
      empty? c => nil
      cons(j, c)

    coerce(p: Permutation n): % ==
      l: Rep := nil
      for i in #() .. 1 by -1 repeat
        sub == subcycle(p, i, i)
	if not empty? sub then l := cons(sub, l)
      per l

    1: % == per [ [i]@List SI for i in 1 .. n ]

    ( a: % ) = ( b: % ): Bit == (rep a) = (rep b)
    ( a: % ) ~= ( b: % ): Bit == ~(a = b)

    [t: Tuple SI]: % == t :: Permutation n :: %

    #(): SI == n

    #: Integer == n :: Integer

    coerce(t: Tuple SI): % == [t]

    ( a: % ) * ( b: % ): % ==
      ((a :: Permutation n) * (b :: Permutation n)) :: %

    ( a: % ) ^ (n: Integer) : % == error "not implemented"

    inv(a: %): % == ( inv (a :: Permutation n) ) :: %

-- Tests

import from
  String
  SI

print << "Testing Permutation and Cycle domains..." << newline

macro P6 == Permutation 6
macro C6 == Cycle 6
macro P7 == Permutation 7
macro C7 == Cycle 7

import from C7

print << "Unit permutation on six objects: " << (1@P6) << newline

local
  b: P6 == [3,1,2,4,6,5]
local
  bc: C6 == ( b :: C6 )

print << "b = " << b << " = " << bc << newline
print << "inv b = " << inv b << " = " << inv bc << newline
print << "b * inv b = " << (b * inv b) << " = " << (bc * inv bc) << newline
print << "b / b = " << (b / b) << " = " << (bc / bc) << newline

print << "b 3 = " << (b 3) << " = " << (bc 3) << newline

local c6: P6 := b
for i in 1 .. while c6 ~= 1 repeat
  print << "b ** " << i << " = " << c6 << " = " << (c6::C6) << newline
  c6 := c6 * b

local d: P7 == [2, 3, 4, 5, 6, 7, 1]
local c7: P7 := d
for i in 1 .. while c7 ~= 1 repeat
  print << "d ** " << i << " = " << c7 << " = " << (c7::C7) << newline
  c7 := c7 * d

print << ("End of test.") << newline
