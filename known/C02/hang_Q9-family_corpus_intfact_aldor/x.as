#include "aldor.as"
#include "aldorio.as"

-- intfact.as contains Aldor code for checking primality and performing
-- factorisations
--
-- Copyright (C) 2003 	Bill Naylor
--
-- This library is free software; you can redistribute it and/or
-- modify it under the terms of the GNU Lesser General Public
-- License as published by the Free Software Foundation; either
-- version 2.1 of the License, or (at your option) any later version.
--
-- This library is distributed in the hope that it will be useful,
-- but WITHOUT ANY WARRANTY; without even the implied warranty of
-- MERCHANTABILITY or FITNESS FOR A PARTICULAR PURPOSE.  See the GNU
-- Lesser General Public License for more details.
--
-- You should have received a copy of the GNU Lesser General Public
-- License along with this library; if not, write to the Free Software
-- Foundation, Inc., 59 Temple Place, Suite 330, Boston, MA  02111-1307  USA
-- You may contact the author at e-mail: bill@mcs.vuw.ac.nz 

I ==> Integer;
MI ==> MachineInteger;

import from String;

+++ Author: Michael Monagan
+++ Date Created: August 1987
+++ Date Last Updated: 31 May 1993
+++ Updated by: James Davenport
+++ Updated Because: of problems with strong pseudo-primes
+++   and for some efficiency reasons.
+++ converted for aldor by Bill Naylor 1st May 2003
+++ Basic Operations:
+++ Related Domains:
+++ Also See:
+++ AMS Classifications:
+++ Keywords: integer, prime
+++ Examples:
+++ References: Davenport's paper in ISSAC 1992
+++             AXIOM Technical Report ATR/6
+++ Description:
+++   The \spadtype{IntegerPrimesPackage} implements a modification of
+++   Rabin's probabilistic
+++   primality test and the utility functions \spadfun{nextPrime},
+++   \spadfun{prevPrime} and \spadfun{primes}.
IntegerPrimesPackage: with {
   prime?: I -> Boolean;
     ++ \spad{prime?(n)} returns true if n is prime and false if not.
     ++ The algorithm used is Rabin's probabilistic primality test
     ++ (reference: Knuth Volume 2 Semi Numerical Algorithms).
     ++ If \spad{prime? n} returns false, n is proven composite.
     ++ If \spad{prime? n} returns true, prime? may be in error
     ++ however, the probability of error is very low.
     ++ and is zero below 25*10**9 (due to a result of Pomerance et al),
     ++ below 10**12 and 10**13 due to results of Pinch,
     ++ and below 341550071728321 due to a result of Jaeschke.
     ++ Specifically, this implementation does at least 10 pseudo prime
     ++ tests and so the probability of error is \spad{< 4**(-10)}.
     ++ The running time of this method is cubic in the length
     ++ of the input n, that is \spad{O( (log n)**3 )}, for n<10**20.
     ++ beyond that, the algorithm is quartic, \spad{O( (log n)**4 )}.
     ++ Two improvements due to Davenport have been incorporated
     ++ which catches some trivial strong pseudo-primes, such as
     ++ [Jaeschke, 1991] 1377161253229053 * 413148375987157, which
     ++ the original algorithm regards as prime
   nextPrime: I -> I;
     ++ \spad{nextPrime(n)} returns the smallest prime strictly larger than n
   prevPrime: I -> I;
     ++ \spad{prevPrime(n)} returns the largest prime strictly smaller than n
   primes: (I,I) -> List(I);
     ++ \spad{primes(a,b)} returns a list of all primes p with
     ++ \spad{a <= p <= b}
} == add {
   import from MachineInteger;
   smallPrimes: List(I) := [2,3,5,7,11,13,17,19,_
                      23,29,31,37,41,43,47,_
                      53,59,61,67,71,73,79,_
                      83,89,97,101,103,107,109,_
                      113,127,131,137,139,149,151,_
                      157,163,167,173,179,181,191,_
                      193,197,199,211,223,227,229,_
                      233,239,241,251,257,263,269,_
                      271,277,281,283,293,307,311,_
                      313];

   productSmallPrimes:I  := 61076929465933196099278943388997855150356143888238371488665496574810764573680243467182799164806563626522181311132959748531230210;
   nextSmallPrime:I      := 317;
   nextSmallPrimeSquared:I := nextSmallPrime^2;
   two:I                 := 2;
   tenPowerTwenty:I :=(10)^20;
   PomeranceList:List(I):= [25326001, 161304001, 960946321, 1157839381,
                     -- 3215031751, -- has a factor of 151
                     3697278427, 5764643587, 6770862367,
                      14386156093, 15579919981, 18459366157,
                       19887974881, 21276028621 ];
   PomeranceLimit:I :=27716349961;  -- replaces (25*10^9) due to Pinch
   PinchList:List(I) := [3215031751, 118670087467, 128282461501, 354864744877,
                546348519181, 602248359169, 669094855201 ];
   PinchLimit:I := (10^12);
   PinchList2:List(I) := [2152302898747, 3474749660383];
   PinchLimit2:I := (10^13);
   JaeschkeLimit:I :=341550071728321;
   count2Order:Array(I) := [0];
   default rootsMinus1:List I := [];
   -- used to check whether we observe an element of maximal two-order

   primes(m:I, n:I):List(I) == {
      -- computes primes from m to n inclusive using prime?
      local l:List(I);
      if m<=two then l := [two] else l := [];
      n < two or n < m => [];
      if even? m then m := m + 1;
      ll:List(I) := [k for k in m..n by 2 | prime?(k)];
      reverse append!(ll, l)
   }

  prem(a:I,b:I):I == {
    r := a rem b;
    if r<0 then -r else r
  }

  mulmod(x:I,y:I,p:I):I == {
    (x*y) mod p;
  }

  squaremod(x:I,p:I):I == {
    (x*x) mod p;
  }

  powmod(x:I,n:I,p:I):I == {
    import from MachineInteger;
    if x<0 then x2 := prem(x,p);
    zero? x2 => 0;zero? n => 1;
    y:I := 1;z := x mod p;n2 := n;
    repeat {
      if odd? n2 then y := mulmod(y,z,p);
      n2 := shift(n2,-1);
      if zero?(n2) then return y;
      z := squaremod(z,p);
    }
  }

   rabinProvesCompositeSmall(p:I,n:I,nm1:I,q:I,k:I):Boolean == {
         -- probability n prime is > 3/4 for each iteration
         -- for most n this probability is much greater than 3/4
         t := powmod(p, q, n);
         -- neither of these cases tells us anything
         if not (one? t or t = nm1) then {
            for j in 1..k-1 repeat {
               oldt := t;
               t := squaremod(t, n);
               one? t => return true;
               -- we have squared something not -1 and got 1
               t = nm1 => break;}
            not (t = nm1) => return true
         }
         false
   }

   union(l:List(I),i:I):List(I) == {
     not(member?(i,l)) => cons(i,l);
     l
   }

   rabinProvesComposite(p:I,n:I,nm1:I,q:I,k:I):Boolean == {
         free rootsMinus1,count2Order;
         -- probability n prime is > 3/4 for each iteration
         -- for most n this probability is much greater than 3/4
         t := powmod(p, q, n);
         -- neither of these cases tells us anything
         if t=nm1 then count2Order.0:=(count2Order.0)+1;
         if not (one? t or t = nm1) then {
            for j in 1..k-1 repeat {
               oldt := t;
               t := squaremod(t, n);
               one? t => return true;
               -- we have squared something not -1 and got 1
               if t = nm1 then {
                   rootsMinus1:=union(rootsMinus1,oldt);
                   count2Order.(machine j):=count2Order.(machine j)+1;
                   break
               }
            }
            not (t = nm1) => return true
         }
         #rootsMinus1 > 2 => true;  -- Z/nZ can't be a field
         false
  }

   prime?(n:I):Boolean == {
      free rootsMinus1,count2Order;

      -- used to check whether we detect too many roots of -1
      import from IntegerRoots;
      inline from IntegerRoots,I,Boolean;
      if n < two then return false;
      if n < nextSmallPrime then return member?(n, smallPrimes);
      if not one? gcd(n, productSmallPrimes) then return false;
      if n < nextSmallPrimeSquared then return true;

      default k:I;
      nm1 := n-1;
      q := nm1 quo two;
      for k2 in 1@I..  repeat {if odd? q then {k := k2;break}; q := q quo two}
      -- q = (n-1) quo 2^k for largest possible k
      if n < JaeschkeLimit then {
          if rabinProvesCompositeSmall(2,n,nm1,q,k) then return false;
          if rabinProvesCompositeSmall(3,n,nm1,q,k) then return false;

          if n < PomeranceLimit then {
              if rabinProvesCompositeSmall(5,n,nm1,q,k) then return false;
              if member?(n,PomeranceList) then return false;
              return true
          }

          if rabinProvesCompositeSmall(7,n,nm1,q,k) then return false;
          n < PinchLimit => {
              if rabinProvesCompositeSmall(10,n,nm1,q,k) then return false;
              if member?(n,PinchList) then return false;
              return true
          }

          if rabinProvesCompositeSmall(5,n,nm1,q,k) then return false;
          if rabinProvesCompositeSmall(11,n,nm1,q,k) then return false;
          if n < PinchLimit2 then {
              if member?(n,PinchList2) then return false;
              return true
          }

          if rabinProvesCompositeSmall(13,n,nm1,q,k) then return false;
          if rabinProvesCompositeSmall(17,n,nm1,q,k) then return false;
          return true
      }

      rootsMinus1:= [];
      count2Order := new(machine k,0); -- vector of k zeroes

      mn:MachineInteger := firstIndex$List(I);
      for i in (mn+1)..(mn+10) repeat {
          if rabinProvesComposite(smallPrimes.i,n,nm1,q,k) then {
            return false;
          } else {
          }
      }
      if q > 1 and perfectSquare?(3*n+1) then return false;
      n9:=n rem 9;
      if (n9=1 or n9 = -1) and perfectSquare?(8*n+1) then return false;
      -- Both previous tests from Damgard & Landrock
      currPrime:=smallPrimes.10;
      probablySafe:=tenPowerTwenty;
      while count2Order.(machine k-1) = 0 or n > probablySafe repeat {
          currPrime := nextPrime currPrime;
          probablySafe:=probablySafe*100;
          rabinProvesComposite(currPrime,n,nm1,q,k) => return false;
      }
      true
   }

   nextPrime(n:I):I == {
      -- computes the first prime after n
      n < two => two;
      if odd? n then n := n + two else n := n + 1;
      while not prime? n repeat n := n + two;
      n
   }

   prevPrime(n:I):I == {
      -- computes the first prime before n
      n < 3 => error "no primes less than 2";
      n = 3 => two;
      if odd? n then n := n - two else n := n - 1;
      while not prime? n repeat n := n - two;
      n
   }
}

IntegerRoots: with {
    perfectNthPower?: (I, I) -> Boolean;
      ++ \spad{perfectNthPower?(n,r)} returns true if n is an \spad{r}th
      ++ power and false otherwise
    perfectNthRoot: (I,I) -> Union(i:I,failed:'failed');
      ++ \spad{perfectNthRoot(n,r)} returns the \spad{r}th root of n if n
      ++ is an \spad{r}th power and returns "failed" otherwise
    perfectNthRoot: I -> Record(base:I, exponent:I);
      ++ \spad{perfectNthRoot(n)} returns \spad{[x,r]}, where \spad{n = x\^r}
      ++ and r is the largest integer such that n is a perfect \spad{r}th power
    approxNthRoot: (I,I) -> I;
      ++ \spad{approxRoot(n,r)} returns an approximation x
      ++ to \spad{n**(1/r)} such that \spad{-1 < x - n**(1/r) < 1}
    perfectSquare?: I -> Boolean;
      ++ \spad{perfectSquare?(n)} returns true if n is a perfect square
      ++ and false otherwise
    perfectSqrt: I -> Union(i:I,failed:'failed');
      ++ \spad{perfectSqrt(n)} returns the square root of n if n is a
      ++ perfect square and returns "failed" otherwise
    approxSqrt: I -> I;
      ++ \spad{approxSqrt(n)} returns an approximation x
      ++ to \spad{sqrt(n)} such that \spad{-1 < x - sqrt(n) < 1}.
      ++ Compute an approximation s to \spad{sqrt(n)} such that
      ++           \spad{-1 < s - sqrt(n) < 1}
      ++ A variable precision Newton iteration is used.
      ++ The running time is \spad{O( log(n)**2 )}.
} == add {
    import from I,Union(i:I,failed:'failed');
    inline from I,Union(i:I,failed:'failed'),MachineInteger;
    resMod144: List I := [0,1,4,9,16,25,36,49,52,64,73,81,97,100,112,121];
    two:I := 2;
    twomach:MachineInteger := 2;
 
    perfectSquare?(a:I):Boolean       == (perfectSqrt a) case i;
    perfectNthPower?(b:I, n:I):Boolean == perfectNthRoot(b, n) case i;


    perfectNthRoot(n:I):Record(base:I, exponent:I) ==  {-- complexity (log log n)**2 (log n)**2
      import from IntegerPrimesPackage;
      local m2:MI;
      one? n or zero? n or n = -1 => [n, 1];
      e:I := 1;
      p:I := 2;
      while machine(p) <= length(n) + 1 repeat {
         for m in 0@MI.. repeat {
            if (r := perfectNthRoot(n, p)) case failed then {
              m2 := m;break;
            }
            n := r.i;
         }
         e := e * p ^ m2;
         p := nextPrime(p);
      }
      [n, e]
    }

    approxNthRoot(a:I, n:I):I == {  -- complexity (log log n) (log n)**2
--      zero? n => error "invalid arguments";
      one? n => a;
      n=2 => approxSqrt a;
      a<0 => {
        odd? n => - approxNthRoot(-a, n);
        0
      }
      zero? a => 0;
      one? a => 1;
      -- quick check for case of large n
      default l:MI;
      machine((3*n) quo 2) >= (l := length(a)) => two;
      -- the initial approximation must be >= the root
      y:I := max(two, shift(1, machine((n+l::I-1) quo n)));
      z:I := 1;
      n1:I := n-1;n1m:MachineInteger := machine(n1);
      while z > 0 repeat {
        x := y;
        xn := x^n1m;
--        y := (n1*x*xn+a) quo (n*xn);
        nxn := n*xn;y := ((nxn-xn)*x + a) quo nxn;
        z := x-y
      }
      x;
    }

    perfectNthRoot(b:I, n:I):Union(i:I,failed:'failed') == {
      (r := approxNthRoot(b, n))^machine(n) = b => [r];
      [failed]
    }

    perfectSqrt(a:I):Union(i:I,failed:'failed') == {
      a < 0 or not member?(a rem 144, resMod144) => [failed];
      (s := approxSqrt a) * s = a => [s];
      [failed]
    }

    approxSqrt(a:I):I == {
      import from MI;
      local new,old:I;
      a < 1 => 0;
      if (n := length a) > 100 then {
         -- variable precision newton iteration
         n := n quo 4;
         s := approxSqrt shift(a, -2 *  n);
         s := shift(s,  n);
         return ((1 + s + a quo s) quo two)
      }
      -- initial approximation for the root is within a factor of 2
      (new, old) := (shift(1, n quo twomach), 1);
      while new ~= old repeat {
         (new, old) := ((1 + new + a quo new) quo two, new)
      }
      new
   }
}



B      ==> Boolean;
FF     ==> Record(unt:I,fct:List(FFE));
NNI    ==> NonNegativeInteger;
LMI    ==> ListMultiDictionary I;
FFE    ==> Record(flg:Union(nil:'nil',sqfr:'sqfr',irred:'irred',prime:'prime'),
                                                   fctr:I, xpnt:Integer);

--% IntegerFactorizationPackage
-- recoded MBM Nov/87

+++ This Package contains basic methods for integer factorization.
+++ The factor operation employs trial division up to 10,000.  It
+++ then tests to see if n is a perfect power before using Pollards
+++ rho method.  Because Pollards method may fail, the result
+++ of factor may contain composite factors.  We should also employ
+++ Lenstra's eliptic curve method.
IntegerFactorizationPackage: with {
    factor : I -> FF;
      ++ factor(n) returns the full factorization of integer n
    squareFree   : I -> FF;
      ++ squareFree(n) returns the square free factorization of integer n
    BasicMethod : I -> FF;
      ++ BasicMethod(n) returns the factorization
      ++ of integer n by trial division
    PollardSmallFactor: I -> Union(i:I,failed:'failed');

       ++ PollardSmallFactor(n) returns a factor
       ++ of n or "failed" if no one is found
} == add {
    import from IntegerRoots;
    inline from IntegerRoots,FF,List(FFE),FFE;

    makeFR(u:I,y:List(FFE)):FF == [u,y];

    factorList(u:FF):List(FFE) == u.fct;

    squareFree(n:I):FF == {
       import from Union(i:I,failed:'failed'),FFE;

       local u:I;
       if n<0 then {m := -n; u := -1}
              else {m := n; u := 1}
       (m > 1) and ((v := perfectSqrt m) case i) => {
          for rec in (l := factorList(sv := squareFree(v.i))) repeat
            rec.xpnt := 2 * rec.xpnt;
          makeFR(u * sv.unt, l)
       }
    -- avoid using basic sieve when the lim is too big
       lim := 1 + approxNthRoot(m,3);
       lim > 100000 => makeFR(u, factorList factor m);
       x := BasicSieve(m, lim);
       y := {
         one?(m:= x.unt) => factorList x;
         (v := perfectSqrt m) case i => 
            append!(factorList x, [[sqfr],v.i,2]$FFE);
         append!(factorList x, [[sqfr],m,1]$FFE)
       }
       makeFR(u, y)
    }

    -- Pfun(y: I,n: I): I == (y^2 + 5) rem n
    PollardSmallFactor(n:I):Union(i:I,failed:'failed') == {
       -- Use the Brent variation
       x0 := random()$I;
       m := 100;
       y := x0 rem n;
       local (r,q,G):I := (1,1,1);
       while not(G > 1) repeat {
          x := y;
          for i in 1..r repeat {
             y := (y*y+5) rem n;
             q := (q*abs(x-y)) rem n;
             k:I := 0
          }
          while not( (k>=r) or (G>1)) repeat {
             ys := y;
             for i in 1..min(m,r-k) repeat {
                y := (y*y+5) rem n;
                q := q*abs(x-y) rem n
             }
             G := gcd(q,n);
             k := k+m
          }
          r := 2*r
       }
       if G=n then {
          while not(G>1) repeat {
             ys := (ys*ys+5) rem n;
             G := gcd(abs(x-ys),n)
          }
       }
       G=n => [failed];
       [G]
    }

    rest(x:List(I),n:I):List(I) == {
      n=0 => return x;
      rest(rest x,n-1);
    }

    BasicSieve(r:I, lim:I):FF == {
       import from FFE;
       l:List(I) :=
          [1,2,2,4,2,4,2,4,6,2,6];
       l := append!(l, rest(l, 3));
       local d : I := 2;
       local n : I := r;
       ls:List(FFE) := [];
       local m:I;
       for s in l repeat {
          d > lim => return makeFR(n, ls);
          if n<d*d then {
             if n>1 then ls := append!(ls, [[prime],n,1]$FFE);
             return makeFR(1, ls)
          }
          for m2 in 0@I.. repeat {
            if not(zero?(n rem d)) then {m:=m2;break}
            n := n quo d;
          }
          if m>0 then ls := append!(ls, [[prime],d,m]$FFE);
          d := d+s
       }
       never
    }

    BasicMethod(n:I):FF == {
       local u:I;
       if n<0 then (m := -n; u := -1)
              else (m := n; u := 1);
       x := BasicSieve(m, 1 + approxSqrt m);
       makeFR(u, factorList x)
    }

    count(n:I,l:List(I)):MachineInteger == {
      r:MachineInteger := 0;for i in l repeat if n=i then r:=r+1;
      r
    }

    UFL ==> Union(nil:'nil',sqfr:'sqfr',irred:'irred',prime:'prime');

    eq(fnl:UFL,f:I,xp:I,i:FFE):B == {
      f ~= i.fctr or xp ~=i.xpnt => false;
      iu:UFL := i.flg;
     (iu case nil) and (fnl case nil) or
     (iu case sqfr) and (fnl case sqfr) or
     (iu case irred) and (fnl case irred) or
     (iu case prime) and (fnl case prime)
    }

    count(n:FFE,l:List(FFE)):MachineInteger == {
      nfl:UFL := n.flg;
      (nf,nxp) := (n.fctr,n.xpnt); r:MachineInteger := 0;
      for i in l repeat if eq(nfl,nf,nxp,i) then r:=r+1;
      r
    }

    countRemove(n:FFE,l:List(FFE)):(I,List(FFE)) == {
      nfl:UFL := n.flg;
      (nf,nxp) := (n.fctr,n.xpnt); r := 0; rl:List(FFE) := [];
      for i in l repeat {
        if eq(nfl,nf,nxp,i) then {
          r := r+1;rl := cons(i,rl);
        }
      }
      {r,reverse rl}
    }

    -- special remove! for List FFE (the normal one doesn't work)
    myremove!(n:FFE,fl:List(FFE)):List(FFE) == {
      import from MachineInteger;
      nf := n.flg;(nfa,nxp):I := (n.fctr,n.xpnt);
      fl2:List(FFE) := [];
      for f in fl repeat {
        if not eq(nf,nfa,nxp,n) then fl2 := cons(f,fl2);
      }
      fl := reverse(fl2)
    }

    myset!(l:List(I),i:MI,j:I):List(I) == {
      cons(j,l)
--      len := #l;
--      if i<=len then {set!(l,i,j);return l}
--      l := append!(l,new(i-len,0));
--      set!(l,i,j);
--      l
    }

    factor(m:I):FF == {
       import from MI,FFE,Record(base:I, exponent:I),Union(i:I,failed:'failed');
       import from IntegerPrimesPackage;
       inline from IntegerPrimesPackage;

       local u:I;
       zero? m => makeFR(1,[[[nil],0,0]]);
       if m<0 then {n := -m; u := -1}
                      else {n := m; u := 1};
       b := BasicSieve(n, 10000);
       flb := factorList b;
       one?(n := b.unt) => makeFR(u, flb);
       a:List(I) := []; -- numbers yet to be factored
       flb2:List(I) := []; -- prime factors found
       f:List(I) := []; -- number which could not be factored
       a := cons(n,a);
       while not empty? a repeat {
          n := first a; 
          c := count(n, a); a := remove!(n, a);
          --{c,a} := countRemove(n,a);
          if prime?(n)$IntegerPrimesPackage then {
            flb2 := myset!(flb2,c,n);
            iterate;
          }
          -- test for a perfect power
          if (s := perfectNthRoot n).exponent > 1 then {
            a := myset!(a,c*machine(s.exponent),s.base);iterate}
          -- test for a difference of square
          x:=approxSqrt n;
          if (x^2<n) then x:=x+1;
          if (y:=perfectSqrt (x^2-n)) case i then {
                a := myset!(a,c,x+y.i);
                a := myset!(a,c,x-y.i);iterate
          }
          if (d := PollardSmallFactor n) case i then {
             for m2 in 0@I.. repeat {
               if not(zero?(n rem d.i)) then {
                 m := m2;break}
               n := n quo d.i;
             }
             a := myset!(a, machine(m)*c, d.i);
             if n > 1 then a := myset!(a, c, n);
             iterate
          }
          -- an elliptic curve factorization attempt should be made here
          f := myset!(f, c, n);
       }
       -- insert prime factors found
       while not empty?(flb2) repeat {
          n2 := first flb2; c := count(n2, flb2); 
          flb2 := remove!(n2, flb2);
          flb := cons([[prime],n2,c::I]$FFE,flb)
       }
       -- insert non-prime factors found
       while not empty? f repeat {
          n := first f; c := count(n, f); f := remove!(n, f);
          flb := cons([[nil],n,c::I]$FFE,flb)
       }
       makeFR(u, flb)
    }
}

import from IntegerFactorizationPackage;
import from I;
stdout << "start" << newline;
factor 23847298372;
stdout << "end" << newline;
