-- Copyright (c) 1990-2007 Aldor Software Organization Ltd (Aldor.org).
--> testcomp
--> testrun -l axllib
--> testerrs

#include "axllib"

f(): () == {
	import from Union(x: Integer, y: Integer, z: String);
	print << ([x==2] case x)<<newline;
	print << ([x==2] case y)<<newline;
	print << [y==2] << newline;
	print << ([x==2] = [y==2]) << newline;
#if TestErrorsToo
	[3];
#endif
}

f();
