-- Copyright (c) 1990-2007 Aldor Software Organization Ltd (Aldor.org).

#pile
#include "axllib.as"
--> testrun -O  -l axllib
--> testcomp -O

-- Tests mutually recursive domains
XList ==> List

D1: BasicType with { 
	iter: (String->(), SingleInteger -> (), %) -> ();
	make: List D2->%;
	make: SingleInteger->%;
} ==  add {
	Rep==> Union(x: SingleInteger, ol: List D2);
	import from D2, List D2;
	import from Rep;

	make(a: List D2): % == per [a];
	make(a: SingleInteger): % == per [a];
	
	iter(f1: String->(), g1: SingleInteger->(), o: %): () == {
		rep(o) case ol => 
			for d in rep(o).ol repeat
				iter(f1, g1, d);
		g1(rep(o).x);
	}

	(a: %) = (b: %): Boolean == false;
	(p: TextWriter) << (o:%): TextWriter == {
		if rep(o) case x then p<<"#<d2: "<<rep(o).x<<">";
		else {
			p <<"#<d1:";
			for y in rep(o).ol repeat
				p<<" "<<y;
			p <<">";
		}
	}
	sample: % == make[];
}

D2: BasicType with { 
	iter: (String->(), SingleInteger -> (), %)-> ();

	make: List D1->%;
	make: String->%;
} ==  add {
	Rep==> Union(x: String, ol: List D1);
	import from D1, List D1;
	import from Rep;

	make(a: List D1): % == per [a];
	make(a: String): % == per [a];

	iter(f1: String->(), g1: SingleInteger->(), o: %): () == {
		rep(o) case ol => 
			for d in rep(o).ol repeat
				iter(f1, g1, d);
		f1(rep(o).x);
	}
	(a: %) = (b: %): Boolean == false;
	(p: TextWriter) << (o:%): TextWriter == {
		if rep(o) case x then p<<"#<d2: "<<rep(o).x<<">";
		else {
			p << "#<d2:";
			for y in rep(o).ol repeat
				p<< " " << y;
			p << ">";
		}
	}
	sample: % == make [];
}

T1(): () == {
	import from D1, D2;
	import from List D1, List D2;
	import from String, SingleInteger;
	print <<sample$D1<<newline;
	print <<sample$D2<<newline;
	x := make [make "hello", make "there", make [make 1] ];
	ps(x: String): () == print <<x<<newline;
	pi(x: SingleInteger): () == print <<x<<newline;
	iter(ps, pi, x);
	print <<x<<newline;
}

T1();
