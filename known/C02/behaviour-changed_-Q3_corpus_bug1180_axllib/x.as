--* From hemmecke@risc.uni-linz.ac.at  Thu Nov 18 11:09:20 1999
--* Received: from kernel.risc.uni-linz.ac.at (root@kernel.risc.uni-linz.ac.at [193.170.36.225])
--* 	by nagmx1.nag.co.uk (8.9.3/8.9.3) with ESMTP id LAA12337
--* 	for <ax-bugs@nag.co.uk>; Thu, 18 Nov 1999 11:09:07 GMT
--* Received: from iapetus.risc.uni-linz.ac.at (root@iapetus.risc.uni-linz.ac.at [193.170.36.25])
--* 	by kernel.risc.uni-linz.ac.at (8.9.2/8.9.2/Debian/GNU) with ESMTP id MAA03642
--* 	for <ax-bugs@nag.co.uk>; Thu, 18 Nov 1999 12:07:45 +0100 (CET)
--* Received: by risc.uni-linz.ac.at
--* 	via send-mail from stdin
--* 	id <m11oPPl-0025TNC@iapetus.risc.uni-linz.ac.at> (Debian Smail3.2.0.102)
--* 	for ax-bugs@nag.co.uk; Thu, 18 Nov 1999 12:07:45 +0100 (CET) 
--* Message-Id: <m11oPPl-0025TNC@iapetus.risc.uni-linz.ac.at>
--* Date: Thu, 18 Nov 1999 12:07:45 +0100 (CET)
--* From: hemmecke@risc.uni-linz.ac.at (Ralf HEMMECKE)
--* To: ax-bugs@nag.co.uk
--* Subject: [2] semantic changing add statement

--@ Fixed  by: <Who> <Date>
--@ Tested by: <Name of new or existing file in test directory>
--@ Summary:   <Description of real problem and the fix>

-- Command line: axiomxl -V -DC1 -grun xxx.as
-- Version: Aldor version 1.1.12p2 for LINUX(glibc)
-- Original bug file name: xxx.as

-- Author: Ralf Hemmecke, Johannes Kepler Universit"at Linz
-- Date: 18-NOV-99
-- Aldor version 1.1.12p2 for LINUX(glibc)
-- Subject: semantic changing add statement


-- Calling sequence:
-- Problem case:
--   axiomxl -V -DC1 -grun xxx.as
--The output will be

--:E1(1): x1	E1(2): x2
--:E2(1): x	E2(2): y

--while for 
--   axiomxl -V -DC1 -grun xxx.as
--the output is as wanted

--:E1(1): x	E1(2): y
--:E2(1): x	E2(2): y

-- I hope that this is also considered a bug by NAG. I had quite a hard
-- time to figure out this strange behaviour.
-- However, I guess that although I think that
--    CxDegLexPP(vars: LS): PPCat == CxTDegPP CxLexPP vars;
-- defines a constructor, it is actually considered 
-- by the compiler (or even by the language specification)
-- an ordinary function, maybe only a
-- bit special since it returns a domain, but who knows.
-- With this in mind, the question arises whether or not
--    CxPP(vars: LS,s: String): PPCat with == {add { ... } where {...}}
-- is considered a function or a domain constructor.

-- The intension of my original code (which I have shortened here) was
-- to provide a default definition in PPCat and to overload it by
-- new code from a derived category.

#include "axllib"

macro {
	I == SingleInteger;
	LS == List String;
}

define PPCat: Category == with {
	name: I -> String;
    default {
	name(i: I): String == {-- make x1,x2,x3,x4,...
		A ==> Array Character;
		import from TextWriter,A;
		buffer: A := new(1, char "x");
		wr := writer buffer;
		wr << i; 
		string buffer;
	}
    }
}

define PPCat(T: PPCat): Category == PPCat with {
	coerce: % -> T;
	coerce: T -> %;
    default {
	import from T;
	name(i: I): String == name(i)$T;
    }
}

-------------------------------------------------------------------
CxPP(vars: LS,s: String): PPCat with == {add { -- where clause follows
	name(i: I): String == {
		if i < 0 or i > numOfVars then {
			error "There is no variable with this index."
		} else {
			vars.i;
		}
	}
    } where {numOfVars: I == #vars}
}

CxTDegPP(E: PPCat): PPCat E with == add {
	Rep ==> Record(ex: E, tdeg: I);
	import from E, I, Rep;
	coerce(x: %): E  == rep(x).ex;
	coerce(e: E): % == per [e,  1];
}

CxLexPP(vars: LS): PPCat == CxPP(vars,"lex") add;
CxDegLexPP(vars: LS): PPCat == CxTDegPP CxLexPP vars 
#if C1
add --PROBLEM `add'
#endif
;

main():() == {
	import from I, LS, Character;
	vars: LS == ["x", "y", "z"];
	E1 == CxDegLexPP vars;
	E2 == CxTDegPP CxLexPP vars;
	print << "E1(1): " << name(1)$E1 << tab 
	      << "E1(2): " << name(2)$E1 << newline;
	print << "E2(1): " << name(1)$E2 << tab
	      << "E2(2): " << name(2)$E2 << newline;
}
main();
