#include "aldor"
#include "aldorio"
macro MI == MachineInteger;
macro INT == Integer;
import from MI, INT, Boolean, String, List MI;
pM(x: MI): () == stdout << x << newline;
pI(x: INT): () == stdout << x << newline;
pB(x: Boolean): () == stdout << x << newline;
pS(x: String): () == stdout << x << newline;
pL(x: List MI): () == stdout << x << newline;

zqrest(l: List MI): List MI == if empty? l then l else rest l;
zqap(f: MI -> MI, x: MI): MI == f f x;
zqnop(): () == {};
ZQK9 ==> (-6);
macro ZQM7(x) == (((x) * (x)) + 7);
define ZqExc: Category == with;
ZqE1: ZqExc == add;
ZqE2: ZqExc == add;
zqf1(zqp0f1: MI, zqp1f1: Boolean): MI == {
	(zqp0f1 <= 0) => (zqp0f1 quo 2);
	zqv2: MI := zqp0f1;
	for zqi3: MI in 3..4 repeat {
		zqv2 := (zqv2 - (zqp0f1 rem 97));
		zqb1: Boolean := (zqi3 > 6);
		if zqb1 then {
			return (-7);
		};
	};
	zqv4: MI := 0;
	while (zqv4 < 0) repeat {
		zqv4 := (zqv4 + 1);
		zqv2 := (zqv2 - (zqv4 rem 97));
	};
	(zqf1((zqp0f1 - 1), (zqp1f1 or false)) - (zqp0f1 rem 97))
}
zqf5(zqp0f5: MI, zqp1f5: MI, zqp2f5: MI): MI == {
	(zqp0f5 <= 0) => (zqp0f5 + 100);
	zqb2: Boolean := false;
	if zqb2 then {
		return ((1 + zqp0f5) - 2147483647);
	};
	zqb3: Boolean := true;
	if zqb3 then {
		zqnop();
	};
	(zqf5((zqp0f5 - 1), (zqp0f5 rem 11), 256) - (zqp0f5 rem 10))
}
zqf6(zqp0f6: MI): MI == {
	(zqp0f6 <= 0) => (zqp0f6 - zqp0f6);
	(zqf6((zqp0f6 - 1)) - (zqp0f6 rem 7))
}
zqmk7(k: MI): MI -> MI == (x: MI): MI +-> (x - (k rem 17));
zqthr8(n: MI): MI == { if n > 4 then throw ZqE1; n + 2 }
-- main
zqv9: MI := 0;
zqu10: Union(i: MI, t: String) := [("" + "{c/,Y)/.")];
try {
	pM(zqf5(5, ((zqv9 - zqv9) rem 255), (-3)));
	pM(zqv9);
	throw ZqE2;
} catch E in {
	E has ZqExc => {
		pS("caught 65");
	};
	never
};
pM((if (zqu10 case i) then (zqu10.i) else 3));
pM(((zqmk7((zqv9 rem 6)))((5 + (-2147483648))) - (-1)));
pL(cons(ZQK9, zqrest(reverse([7, 1000, (-7)]))));
pB(false);
for zqi11: MI in 0..0 repeat {
	zqb4: Boolean := (zqi11 > 6);
	if zqb4 then {
		break;
	};
	zqv9 := (zqv9 + (zqv9 rem 97));
	for zqx12 in ([zqf1((zqc13 + zqc13), (not false)) for zqc13 in ([zqv9, zqi11, zqi11]@List(MI))]@List(MI)) repeat {
		zqb5: Boolean := ((zqx12 rem 3) = 0);
		if zqb5 then {
			iterate;
		};
		zqb6: Boolean := (zqx12 > 2);
		if zqb6 then {
			break;
		};
		zqv9 := (zqv9 + (zqx12 rem 7));
		pM(zqv9);
	};
};
