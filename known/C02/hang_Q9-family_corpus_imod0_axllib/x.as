-- Copyright (c) 1990-2007 Aldor Software Organization Ltd (Aldor.org).
--> testrun -l axllib 


#include "axllib"
--#library IMOD "imod.ao"

--import from IMOD;
import from SingleInteger, Integer, Segment SingleInteger, Segment Integer;

#if Big
  Z==> Integer;
  Zp==> IntegerMod 5;
#else
  Z==> SingleInteger;
  Zp==> SingleIntegerMod 5;
#endif

Tables(Z, Zp) ==> {
	n: Zp := 10;
	--import from Zp;
	default i, j, lo, hi: SingleInteger;

	lo := -3;
	hi := 8;

	put(n: SingleInteger): TextWriter == {
		if n >= 0 then print << " ";
		print << n
	}


	table(s: String, op: (Zp, Zp) -> Zp): () == {
		print << " " << s << "  ";
		for j in lo..hi repeat put j << " ";
		print << newline;

		print << "    -----------------------------------" << newline;
		for i in lo..hi repeat {
			put i << ":  ";
			for j in lo..hi repeat
				print << op(i::Zp,j::Zp) << "  ";
			print << newline;
		}
		print << newline;
	}

	table("+", +);
	table("-", -);
	table("*", *);
	table("/", (a: Zp, b: Zp): Zp +-> if b=0 then 0 else a/b);

	print << " ^  ";
	for k in 0..(10@Integer) repeat print << k << "  ";
	print << newline;
	print << "    ---------------------------------" << newline;
	for i in lo..hi repeat {
		put i << ": ";
		for k in 0..(10@Integer) repeat
			print << i::Zp ^ k << "  ";
		print << newline;
	}
	print << newline;
}


f(): () == Tables(SingleInteger, SingleIntegerMod 5);
g(): () == Tables(Integer,       IntegerMod 5);

f();
g();
