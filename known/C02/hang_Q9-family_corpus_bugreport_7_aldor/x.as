-- Author: Ralf Hemmecke, Johannes Kepler Universit"at Linz
-- EMail: ralf@hemmecke.de
-- Date: 15-Jun-2005
-- Aldor version 1.0.2 for LINUX(glibc2.3)
-- Subject: Modifying constant 1

-- Compile with
-- aldor -grun -mno-mactext -laldor xxx.as
-- The output is
--: 1 = [1, 1]
--: z = [8, 100]
--: 1 = [8, 100]

-- The problem is that the implementation of BinaryPowering contains 
-- the lines
-- binaryExponentiation!(a:T, b:Z):T	== binPow!(1, a, b);
-- if T has CopyableType and Z has CopyableType then {
--	binaryExponentiation(a:T, b:Z):T == binPow!(1, copy a, copy b);
-- }
-- and binPow! builds on the function times!$T. So if times!$T 
-- destroys its first argument, then the constant 1 is modified.

-- A bugfix would be to replace "1" by "copy 1" in the second case. 
-- For the first appearance of "1" this would not be possible since
-- T might not be of CopyableType.

#include "aldor"
#include "aldorio"

macro {
	I == MachineInteger;
	X == rep x;
	Y == rep y;
}
MyInt: IntegerType == add {
	Rep == Record(eins: I, zwei: I);
	import from Rep, I;

	-- let's have a really destructive times! function
	times!(x: %, y: %): % == {
		X.eins := times!(X.eins, Y.eins);
		X.zwei := 100;
		x;
	}

	-- make some good definitions for the necessary functions
	0: % == per [0, 0];
	1: % == per [1, 1];
	(x: %) = (y: %): Boolean == X.eins = Y.eins;
	(x: %) < (y: %): Boolean == X.eins < Y.eins;
	(x: %) + (y: %): % == per [X.eins + Y.eins, 2];
	(x: %) * (y: %): % == per [X.eins * Y.eins, 3];
	(x: %) quo (y: %): % == per [X.eins quo Y.eins, 4];
	(x: %) rem (y: %): % == per [X.eins rem Y.eins, 5];
	- (x: %): % == per [- X.eins, 14];
	~ (x: %): % == - x;
	(x: %) \/ (y: %): % == x + y;
	(x: %) /\ (y: %): % == x * y;
	(x: %) ^ (i: I): % == {
		z := x;
		for j in 2..i repeat z := z*x;
		z;
	}
	<<(tr: TextReader): %   == {i: I := <<tr; per [i, 15];}
	<<(br: BinaryReader): % == {i: I := <<br; per [i, 16];}
	(tw: TextWriter)   << (x: %): TextWriter   == {
		tw << "[" << X.eins << ", " << X.zwei << "]";
	}
	(bw: BinaryWriter) << (x: %): BinaryWriter == bw << X.eins;
	bit?(x: %, i: I): Boolean == bit?(X.eins, i);
	coerce(i: I): % == per [i, 7];
	machine(x: %): I == X.eins;
	gcd(x: %, y: %): % == per [gcd(X.eins, Y.eins), 6];
	divide(x: %, y: %): (%, %) == {
		(a, b) := divide(X.eins, Y.eins);
		(per [a, 1], per [b, 2]);
	}
	integer(l: Literal): % == per [integer l, 7];
	length(x: %): I == length(X.eins);
	nthRoot(x: %, y: %): (Boolean, %) == {
		(b, i) := nthRoot(X.eins, Y.eins);
		(b, per [i, 8]);
	}
	random(): % == per [random(), 9];
	random(i: I): % == per [random i, 10];
	shift(x: %, i: I): % == per [shift(X.eins, i), 11];
	
}

main(): () == {
	import from MyInt, I;
	import from BinaryPowering(MyInt, I);

	x: MyInt := 2;
	stdout << "1 = " << 1@MyInt << newline;
	z := binaryExponentiation!(2, 3);
	stdout << "z = " << z << newline;
	stdout << "1 = " << 1@MyInt << newline;
}

main();