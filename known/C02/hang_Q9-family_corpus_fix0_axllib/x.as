-- Copyright (c) 1990-2007 Aldor Software Organization Ltd (Aldor.org).
--> testrun -l axllib
--> testcomp
--> testrun -O -l axllib

#include "axllib"

MyList(X: BasicType): FiniteAggregate X with {
	first: % -> X;
	rest:  % -> %;
	cons: (X, %) -> %;
	make:  X -> %;
	export from X;
} == add {
	import from FormattedOutput;

	NoValue ==> Integer;
	noValue ==> 0$Integer;
	U == Union(n: NoValue, r: Rep);
	Rep == Record(a: X, u: U);

	import from Rep;

	first(x: %): X == (rep(x)).a;
	rest(x: %):  % == per(rep(x).u.r);

	empty?(x: %): Boolean == false;
	last?(x: %):  Boolean == rep(x).u case n;

	cons(z:X , x: %): % == per([z, [rep x]]);
	make(z: X): 	  % == per([z, [noValue]]);
	generator(x: %): Generator X == {
		generate {
			while not last? x repeat {
				yield first x;
				x := rest x;
			}
			yield first x;
		}
	}
	
	map(f: X->X, x: %): % == {
		last? x => per([f first x, [noValue]]);
		cons(f first x, map(f, rest x))
	}

	(p: TextWriter) << (x: %): TextWriter == {
		import from List X;
		(print("[new ~a ]", p))(<< [a for a in x])
	}

	sample: % == per [ sample$X , [noValue]];
	(a: %) = (b: %): Boolean == false;
	#(x: %): SingleInteger == {
		n: SingleInteger := 0;
		for e in x repeat n := n + 1;
		n
	}
}


T1(): () == {
	import from MyList Integer, SingleInteger;

	l1 := cons(1, cons(2, cons(3, make 4)));
	print << l1 << newline 
	      << (#l1) << " " << map(-, l1) << newline;
}

T1();
