-- opts: -Q2
#include "aldor"
#include "aldorio"
macro MI == MachineInteger;
import from MI;
gen(n: MI): Generator MI == generate { for i: MI in 1..n repeat { yield i } };
w: MI := 1;
v: MI := 0;
while (v < 7) repeat {
	v := (v + 1);
	w := (w + (v rem 1000));
	for y in gen(7) repeat {
		v := (v + (v rem 1000));
		stdout << v << newline;
	};
};
