#include "aldor"
#include "aldorio"
macro MI == MachineInteger;
import from MI;
pM(x: MI): () == stdout << x << newline;
define ZqExc: Category == with;
ZqE1: ZqExc == add;
fluid zqfl: MI := 6;
zqfshow(): MI == { fluid zqfl: MI; zqfl }
zqfthrow(n: MI): MI == { fluid zqfl := 192 + n; pM(zqfshow()); if n > 2 then throw ZqE1; n + zqfshow() }
zqfmid(k: MI): MI == 1 + zqfthrow k;
zqfcatch(k: MI): MI == {
	fluid zqfl := 14 + k;
	r: MI := 0;
	try {
		r := zqfmid k;
	} catch E in {
		E has ZqExc => { r := -1 };
		never
	};
	r + zqfshow()
}
zqnop(): () == {};
pM(zqfcatch(4)); pM(zqfshow());
try {
	zqnop();
} catch E in {
	E has ZqExc => {
		zqnop();
	};
	never
};
