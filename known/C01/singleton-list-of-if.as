#include "aldor"
#include "aldorio"
macro MI == MachineInteger;
import from MI, Boolean, List MI;
v: MI := 100;
b: Boolean := true;
m: List MI := [(if b then v else 1000)];
stdout << m << newline;
