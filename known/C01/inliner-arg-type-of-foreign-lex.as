-- opts: -Q2
#include "aldor"
#include "aldorio"
macro MI == MachineInteger;
import from MI, Boolean, List MI;
f(p0: MI, p1: MI, p2: MI): MI == {
	b: Boolean := false;
	if b then {
		return 13;
	};
	(#([c for c in [p0, 255]]@List(MI)))
}
v: MI := 5;
stdout << [f(1, f(c, (v rem 13), 1), 2) for c in ([10, 256]@List(MI))] << newline;
