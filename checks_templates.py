"""Small hand-written programs shared by several checks (calibrated on the unchanged tree)."""
TEMPLATES = ['''#include "aldor"
#include "aldorio"
import from MachineInteger, Integer, List MachineInteger;
f(n: Integer): Integer == if n = 0 then 1 else n * f(n-1);
l: List MachineInteger := [i for i: MachineInteger in 1..10];
stdout << f(30) << newline;
stdout << reverse l << newline;
''', '''#include "aldor"
#include "aldorio"
define Shape: Category == with { area: % -> MachineInteger; name: % -> String; default name(s: %): String == "shape" };
Sq: Shape with { sq: MachineInteger -> % } == add {
	Rep == MachineInteger; import from Rep;
	sq(n: MachineInteger): % == per n;
	area(s: %): MachineInteger == rep(s) * rep(s);
}
import from Sq, MachineInteger, String;
stdout << area(sq 4) << " " << name(sq 2) << newline;
g(n: MachineInteger): Generator MachineInteger == generate { for i in 1..n repeat yield i*i };
for x in g 5 repeat { if x = 9 then iterate; stdout << x << newline }
r: Record(a: MachineInteger, b: String) := [1, "x"];
u: Union(i: MachineInteger, s: String) := [3];
if u case i then stdout << u.i << newline;
''', '''#pile
#include "aldor"
#include "aldorio"
macro MI == MachineInteger
import from MI
fib(n: MI): MI ==
	n < 2 => n
	fib(n-1) + fib(n-2)
h(f: MI -> MI, x: MI): MI == f f x
stdout << fib 10 << newline
stdout << h((y: MI): MI +-> y + 1, 3) << newline
''']
